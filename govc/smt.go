package main

// SMT term layer: terms are s-expression strings with a sort. All intermediate
// values are introduced with define-fun so term size stays linear.

import (
	"fmt"
	"hash/fnv"
	"math/big"
	"os"
	"sort"
	"strings"
	"sync"
)

type Sort string

const (
	SBool Sort = "Bool"
	SStr  Sort = "(_ BitVec 64)" // strings are abstract 64-bit identities; literals are distinct numerals, "" is 0
	SRef  Sort = "(_ BitVec 32)"
	SF64  Sort = "(_ FloatingPoint 11 53)"
	SF32  Sort = "(_ FloatingPoint 8 24)"
)

// MIW is the width of spec-level "mathint" values (signed). 136 bits hold the
// product of two 64-bit machine values plus several further additions or a
// factor of 1000 applied to a 64-bit value; specs never multiply more than two
// full-width machine values.
var MIW = func() int {
	if v := os.Getenv("GOVC_MIW"); v != "" {
		var n int
		fmt.Sscanf(v, "%d", &n)
		if n >= 72 {
			return n
		}
	}
	return 136
}()

func SBV(n int) Sort { return Sort(fmt.Sprintf("(_ BitVec %d)", n)) }
func SArr(k, v Sort) Sort {
	return Sort(fmt.Sprintf("(Array %s %s)", k, v))
}

func (s Sort) IsBV() bool { return strings.HasPrefix(string(s), "(_ BitVec ") }
func (s Sort) Width() int {
	var n int
	fmt.Sscanf(string(s), "(_ BitVec %d)", &n)
	return n
}
func (s Sort) IsArr() bool { return strings.HasPrefix(string(s), "(Array ") }
func (s Sort) IsFP() bool  { return strings.HasPrefix(string(s), "(_ FloatingPoint ") }

type Term struct {
	S    string
	Sort Sort
}

var (
	TTrue  = Term{"true", SBool}
	TFalse = Term{"false", SBool}
)

func (t Term) IsTrue() bool  { return t.S == "true" }
func (t Term) IsFalse() bool { return t.S == "false" }

// Ctx accumulates declarations/definitions for one verification unit (one
// function under contract, or one lemma).
type Ctx struct {
	lines    []string // declarations and definitions in dependency order
	n        int
	ufs      map[string]bool
	strLits  map[string]Term
	strOrder []string
	sorts    map[string]bool
	names    map[string]bool
	// assumptions in program order
	Assumes []Term
	// bookkeeping for the evidence file
	Notes map[string]bool
	// slicing index (slice.go)
	info       []lineInfo
	byName     map[string]int
	assumeSyms [][]string
	assumeFree []map[string]bool
	axiomFree  map[int]map[string]bool
	freeMemo   map[int][]string
	hardMemo   map[int]bool
	arithAlt   map[string]string // macro line -> uninterpreted declaration (abstract query)
	NoSlice    bool
	mu         sync.Mutex
	defined    map[string]string
	roots      map[string]bool
	rootMemo   map[string]map[string]bool
	origin     map[string]string // heap array symbol -> heap key (type|path)
	dataMemo   map[string]map[string]bool
	sxMemo     map[string]*sx
}

// FreeSymbols: the declared (free) symbols the terms depend on, looking through definitions.
func (c *Ctx) FreeSymbols(ts ...Term) map[string]bool {
	c.mu.Lock()
	defer c.mu.Unlock()
	c.index()
	if c.freeMemo == nil {
		c.freeMemo = map[int][]string{}
	}
	var syms []string
	for _, t := range ts {
		syms = append(syms, symbolsOf(t.S)...)
	}
	return c.freeOf(syms, nil)
}

func NewCtx() *Ctx {
	c := &Ctx{ufs: map[string]bool{}, strLits: map[string]Term{}, sorts: map[string]bool{}, names: map[string]bool{}, Notes: map[string]bool{}, byName: map[string]int{}}
	c.lines = append(c.lines, "(declare-fun strlen ((_ BitVec 64)) (_ BitVec 64))")
	c.lines = append(c.lines, "(assert (= (strlen (_ bv0 64)) (_ bv0 64)))")
	c.ufs["strlen"] = true
	return c
}

func (c *Ctx) Note(format string, a ...interface{}) {
	c.Notes[fmt.Sprintf(format, a...)] = true
}

func sanitize(s string) string {
	s = strings.ReplaceAll(s, "github.com/elementsproject/peerswap/", "")
	s = strings.ReplaceAll(s, "github.com/", "")
	var b strings.Builder
	for _, r := range s {
		if r >= 'a' && r <= 'z' || r >= 'A' && r <= 'Z' || r >= '0' && r <= '9' || r == '_' || r == '.' {
			b.WriteRune(r)
		} else {
			b.WriteByte('_')
		}
	}
	out := b.String()
	if len(out) > 60 {
		h := fnv.New32a()
		h.Write([]byte(s))
		out = out[:40] + fmt.Sprintf("_%08x", h.Sum32())
	}
	return out
}

func (c *Ctx) uniq(prefix string) string {
	c.n++
	return fmt.Sprintf("%s!%d", sanitize(prefix), c.n)
}

// Fresh declares an unconstrained constant.
func (c *Ctx) Fresh(prefix string, s Sort) Term {
	name := c.uniq(prefix)
	c.lines = append(c.lines, fmt.Sprintf("(declare-const %s %s)", name, s))
	return Term{name, s}
}

// Named declares a constant with a fixed name (idempotent).
func (c *Ctx) Named(name string, s Sort) Term {
	name = sanitize(name)
	if !c.names[name] {
		c.names[name] = true
		c.lines = append(c.lines, fmt.Sprintf("(declare-const %s %s)", name, s))
	}
	return Term{name, s}
}

// noteOrigin records which heap key (type|field path) a declared heap array stands for.
func (c *Ctx) noteOrigin(sym, key string) {
	if c.origin == nil {
		c.origin = map[string]string{}
	}
	c.origin[sym] = key
}

// Define introduces a name for a term (keeps terms small).
func (c *Ctx) Define(prefix string, t Term) Term {
	if len(t.S) < 24 && !strings.Contains(t.S, " ") {
		return t
	}
	if strings.HasPrefix(t.S, "(_ bv") && strings.Count(t.S, "(") == 1 {
		return t // literals stay literals (recognisable as such)
	}
	// hash-consing: the same term always gets the same name, so syntactically
	// equal facts are recognised as equal (an invariant over untouched data is
	// the very term that was assumed at entry)
	if c.defined == nil {
		c.defined = map[string]string{}
	}
	key := string(t.Sort) + "\x00" + t.S
	if n, ok := c.defined[key]; ok {
		return Term{n, t.Sort}
	}
	name := c.uniq(prefix)
	c.defined[key] = name
	c.lines = append(c.lines, fmt.Sprintf("(define-fun %s () %s %s)", name, t.Sort, t.S))
	return Term{name, t.Sort}
}

// Assumed reports whether exactly this term is among the first n assumptions.
func (c *Ctx) Assumed(t Term, n int) bool {
	if n > len(c.Assumes) {
		n = len(c.Assumes)
	}
	for i := 0; i < n; i++ {
		if c.Assumes[i].S == t.S {
			return true
		}
	}
	return false
}

func (c *Ctx) UF(name string, args []Sort, res Sort) string {
	name = sanitize(name)
	if !c.ufs[name] {
		c.ufs[name] = true
		as := make([]string, len(args))
		for i, a := range args {
			as[i] = string(a)
		}
		c.lines = append(c.lines, fmt.Sprintf("(declare-fun %s (%s) %s)", name, strings.Join(as, " "), res))
	}
	return name
}

// Arith builds a nonlinear / division bit-vector operation through a named
// function `op_W`. In the ordinary query the function is a macro for the SMT
// operator; in the abstract query (stage 0) it is left uninterpreted, which
// keeps congruence (equal arguments give equal results) without bit-blasting a
// multiplier. Uninterpreted is more general than the operator, so `unsat` of the
// abstract query carries over to the real one.
func (c *Ctx) Arith(op string, s Sort, a, b Term) Term {
	name := fmt.Sprintf("%s_%d", op, s.Width())
	if c.arithAlt == nil {
		c.arithAlt = map[string]string{}
	}
	if _, ok := c.arithAlt[name]; !ok {
		def := fmt.Sprintf("(define-fun %s ((x!a %s) (x!b %s)) %s (%s x!a x!b))", name, s, s, s, op)
		c.arithAlt[def] = fmt.Sprintf("(declare-fun %s (%s %s) %s)", name, s, s, s)
		c.arithAlt[name] = def
		c.lines = append(c.lines, def)
	}
	return Term{fmt.Sprintf("(%s %s %s)", name, a.S, b.S), s}
}

func (c *Ctx) App(name string, res Sort, args ...Term) Term {
	ss := make([]Sort, len(args))
	as := make([]string, len(args))
	for i, a := range args {
		ss[i] = a.Sort
		as[i] = a.S
	}
	n := c.UF(name, ss, res)
	if len(args) == 0 {
		return Term{n, res}
	}
	return Term{"(" + n + " " + strings.Join(as, " ") + ")", res}
}

func (c *Ctx) StrLit(s string) Term {
	if t, ok := c.strLits[s]; ok {
		return t
	}
	if s == "" {
		return BVLit(0, 64)
	}
	name := fmt.Sprintf("str!%d!%s", len(c.strLits)+1, sanitize(s))
	if len(name) > 50 {
		name = name[:50]
	}
	// literal k is the identity 2^62+k: distinct from every other literal and from ""
	c.lines = append(c.lines, fmt.Sprintf("(define-fun %s () (_ BitVec 64) (_ bv%d 64))", name, (1<<62)+len(c.strLits)+1))
	c.lines = append(c.lines, fmt.Sprintf("(assert (= (strlen %s) %s))", name, BVLit(int64(len(s)), 64).S))
	t := Term{name, SStr}
	c.strLits[s] = t
	c.strOrder = append(c.strOrder, s)
	return t
}

// StrLits: the string literals interned so far, in order.
func (c *Ctx) StrLits() []string {
	return append([]string{}, c.strOrder...)
}

// StrLitValue: the text of a string literal term.
func (c *Ctx) StrLitValue(t Term) (string, bool) {
	if t.S == BVLit(0, 64).S {
		return "", true
	}
	for s, lt := range c.strLits {
		if lt.S == t.S {
			return s, true
		}
	}
	return "", false
}

func (c *Ctx) Assume(t Term) {
	if t.IsTrue() {
		return
	}
	c.Assumes = append(c.Assumes, t)
}

// Script renders a complete query: prelude, the first nAssume assumptions, and
// the negated goal.
func (c *Ctx) Script(nAssume int, negGoal Term, wantModel bool, extra ...Term) string {
	return c.script(nAssume, negGoal, wantModel, false, extra...)
}

// ScriptThin is the abstract query: multiplication, division and remainder are
// uninterpreted functions. An `unsat` answer carries over to the full query;
// any other answer means nothing and the full query must be asked.
func (c *Ctx) ScriptThin(nAssume int, negGoal Term) string {
	return c.script(nAssume, negGoal, false, true)
}

func (c *Ctx) script(nAssume int, negGoal Term, wantModel bool, thin bool, extra ...Term) string {
	var b strings.Builder
	if wantModel {
		b.WriteString("(set-option :produce-models true)\n")
	}
	b.WriteString("(set-logic ALL)\n")
	if c.NoSlice {
		for _, l := range c.lines {
			b.WriteString(l)
			b.WriteByte('\n')
		}
		for i := 0; i < nAssume && i < len(c.Assumes); i++ {
			fmt.Fprintf(&b, "(assert %s)\n", c.Assumes[i].S)
		}
	} else {
		keepLine, keepAssume := c.sliceFor(nAssume, thin, append([]Term{negGoal}, extra...)...)
		for i, l := range c.lines {
			if keepLine[i] {
				if thin {
					if alt, ok := c.arithAlt[l]; ok {
						l = alt
					}
				}
				b.WriteString(l)
				b.WriteByte('\n')
			}
		}
		for i := range keepAssume {
			if keepAssume[i] {
				fmt.Fprintf(&b, "(assert %s)\n", c.Assumes[i].S)
			}
		}
	}
	fmt.Fprintf(&b, "(assert %s)\n", negGoal.S)
	b.WriteString("(check-sat)\n")
	if wantModel {
		b.WriteString("(get-model)\n")
	}
	return b.String()
}

// MultiScript renders one incremental query for several parts (sorted by the
// number of assumptions they may use): each part is checked under push/pop.
func (c *Ctx) MultiScript(parts []OblPart) string {
	var b strings.Builder
	b.WriteString("(set-logic ALL)\n")
	for _, l := range c.lines {
		b.WriteString(l)
		b.WriteByte('\n')
	}
	done := 0
	for _, p := range parts {
		for ; done < p.NAssume && done < len(c.Assumes); done++ {
			fmt.Fprintf(&b, "(assert %s)\n", c.Assumes[done].S)
		}
		fmt.Fprintf(&b, "(push 1)\n(assert %s)\n(check-sat)\n(pop 1)\n", p.NegGoal.S)
	}
	return b.String()
}

// ---- constructors with light simplification ----

func BVLit(v int64, w int) Term {
	return BVLitBig(big.NewInt(v), w)
}

func BVLitBig(v *big.Int, w int) Term {
	m := new(big.Int).Lsh(big.NewInt(1), uint(w))
	x := new(big.Int).Mod(v, m)
	if x.Sign() < 0 {
		x.Add(x, m)
	}
	return Term{fmt.Sprintf("(_ bv%s %d)", x.String(), w), SBV(w)}
}

func Not(a Term) Term {
	switch {
	case a.IsTrue():
		return TFalse
	case a.IsFalse():
		return TTrue
	}
	if strings.HasPrefix(a.S, "(not ") {
		return Term{a.S[5 : len(a.S)-1], SBool}
	}
	return Term{"(not " + a.S + ")", SBool}
}

func And(ts ...Term) Term {
	var xs []string
	for _, t := range ts {
		if t.IsFalse() {
			return TFalse
		}
		if t.IsTrue() {
			continue
		}
		xs = append(xs, t.S)
	}
	switch len(xs) {
	case 0:
		return TTrue
	case 1:
		return Term{xs[0], SBool}
	}
	return Term{"(and " + strings.Join(xs, " ") + ")", SBool}
}

func Or(ts ...Term) Term {
	var xs []string
	for _, t := range ts {
		if t.IsTrue() {
			return TTrue
		}
		if t.IsFalse() {
			continue
		}
		xs = append(xs, t.S)
	}
	switch len(xs) {
	case 0:
		return TFalse
	case 1:
		return Term{xs[0], SBool}
	}
	return Term{"(or " + strings.Join(xs, " ") + ")", SBool}
}

func Imp(a, b Term) Term {
	if a.IsTrue() {
		return b
	}
	if a.IsFalse() || b.IsTrue() {
		return TTrue
	}
	return Term{"(=> " + a.S + " " + b.S + ")", SBool}
}

func Eq(a, b Term) Term {
	if a.S == b.S {
		return TTrue
	}
	if a.Sort != b.Sort {
		panic(fmt.Sprintf("Eq sort mismatch: %s:%s vs %s:%s", a.S, a.Sort, b.S, b.Sort))
	}
	if a.Sort.IsFP() {
		return Term{"(fp.eq " + a.S + " " + b.S + ")", SBool}
	}
	return Term{"(= " + a.S + " " + b.S + ")", SBool}
}

func Ite(c, a, b Term) Term {
	if c.IsTrue() {
		return a
	}
	if c.IsFalse() {
		return b
	}
	if a.S == b.S {
		return a
	}
	if a.Sort != b.Sort {
		panic(fmt.Sprintf("Ite sort mismatch: %s vs %s", a.Sort, b.Sort))
	}
	return Term{"(ite " + c.S + " " + a.S + " " + b.S + ")", a.Sort}
}

func Op(op string, res Sort, args ...Term) Term {
	as := make([]string, len(args))
	for i, a := range args {
		as[i] = a.S
	}
	return Term{"(" + op + " " + strings.Join(as, " ") + ")", res}
}

func Select(arr, idx Term) Term {
	// (Array K V) → V
	v := arrValSort(arr.Sort)
	return Term{"(select " + arr.S + " " + idx.S + ")", v}
}

func Store(arr, idx, val Term) Term {
	return Term{"(store " + arr.S + " " + idx.S + " " + val.S + ")", arr.Sort}
}

// arrSorts splits "(Array K V)" into K and V.
func arrSorts(s Sort) (Sort, Sort) {
	str := string(s)
	str = strings.TrimPrefix(str, "(Array ")
	str = str[:len(str)-1]
	// K is one balanced sexp
	depth := 0
	for i, ch := range str {
		switch ch {
		case '(':
			depth++
		case ')':
			depth--
		case ' ':
			if depth == 0 {
				return Sort(str[:i]), Sort(str[i+1:])
			}
		}
	}
	panic("bad array sort " + string(s))
}

func arrValSort(s Sort) Sort { _, v := arrSorts(s); return v }
func arrKeySort(s Sort) Sort { k, _ := arrSorts(s); return k }

// Extend widens a bit-vector term.
func Extend(t Term, to int, signed bool) Term {
	w := t.Sort.Width()
	if w == to {
		return t
	}
	if w > to {
		return Term{fmt.Sprintf("((_ extract %d 0) %s)", to-1, t.S), SBV(to)}
	}
	op := "zero_extend"
	if signed {
		op = "sign_extend"
	}
	return Term{fmt.Sprintf("((_ %s %d) %s)", op, to-w, t.S), SBV(to)}
}

func sortedKeys(m map[string]bool) []string {
	var ks []string
	for k := range m {
		ks = append(ks, k)
	}
	sort.Strings(ks)
	return ks
}

// LiteralsOf: the bit-vector literals occurring in the term, looking through
// definitions (used to recover the type tag stored into a freshly built
// variadic operand array: the load is `select(store(.., tag))`).
func (c *Ctx) LiteralsOf(t Term) []string {
	c.mu.Lock()
	defer c.mu.Unlock()
	c.index()
	seen := map[string]bool{}
	var out []string
	var walk func(s string, depth int)
	walk = func(s string, depth int) {
		if depth > 6 {
			return
		}
		for i := 0; i+5 < len(s); i++ {
			if strings.HasPrefix(s[i:], "(_ bv") {
				j := strings.Index(s[i:], ")")
				if j > 0 {
					lit := s[i : i+j+1]
					if !seen[lit] {
						seen[lit] = true
						out = append(out, lit)
					}
				}
			}
		}
		for _, sym := range symbolsOf(s) {
			if idx, ok := c.byName[sym]; ok && c.info[idx].isDef && !seen[sym] {
				seen[sym] = true
				l := c.lines[idx]
				walk(l, depth+1)
			}
		}
	}
	walk(t.S, 0)
	return out
}

// ---- reference roots -----------------------------------------------------
//
// AddRoot registers the name of a term that denotes a freshly allocated object.
// RootsIn lists the registered roots a term's VALUE may be (or contain): it looks
// through definitions; the index of a select / store and the condition of an ite
// select a value but are not part of it; boolean-valued operators carry no
// reference; allocation frontiers (ctr / sctr chains) are not followed (a later
// frontier is computed from an earlier one but denotes a different object).
func (c *Ctx) AddRoot(name string) {
	c.mu.Lock()
	defer c.mu.Unlock()
	if c.roots == nil {
		c.roots = map[string]bool{}
	}
	if !c.roots[name] {
		c.roots[name] = true
		c.rootMemo = nil
	}
}

var boolHeads = map[string]bool{"=": true, "distinct": true, "and": true, "or": true, "not": true, "=>": true, "xor": true,
	"bvult": true, "bvule": true, "bvugt": true, "bvuge": true, "bvslt": true, "bvsle": true, "bvsgt": true, "bvsge": true}

func (c *Ctx) RootsIn(t Term) map[string]bool {
	out := map[string]bool{}
	if len(c.roots) == 0 || t.S == "" {
		return out
	}
	c.mu.Lock()
	defer c.mu.Unlock()
	c.index()
	if c.rootMemo == nil {
		c.rootMemo = map[string]map[string]bool{}
	}
	toks := sexpTokens(t.S)
	i := 0
	for i < len(toks) {
		var n *sx
		n, i = parseSx(toks, i)
		c.rootsOf(n, out, 0)
	}
	return out
}

func (c *Ctx) rootsOf(n *sx, out map[string]bool, depth int) {
	if n == nil || depth > 4000 {
		return
	}
	if n.list == nil {
		tok := n.atom
		if tok == "" || tok[0] == '#' || (tok[0] >= '0' && tok[0] <= '9') {
			return
		}
		if c.roots[tok] {
			out[tok] = true
			return
		}
		idx, ok := c.byName[tok]
		if !ok || !c.info[idx].isDef {
			return
		}
		if strings.HasPrefix(tok, "ctr!") || strings.HasPrefix(tok, "sctr!") {
			return
		}
		if m, ok := c.rootMemo[tok]; ok {
			for s := range m {
				out[s] = true
			}
			return
		}
		c.rootMemo[tok] = map[string]bool{}
		m := map[string]bool{}
		c.rootsOf(c.bodyOf(tok), m, depth+1)
		c.rootMemo[tok] = m
		for s := range m {
			out[s] = true
		}
		return
	}
	h := n.head()
	switch {
	case h == "_" || h == "as" || boolHeads[h]:
		return
	case h == "ite" && len(n.list) == 4:
		c.rootsOf(n.list[2], out, depth+1)
		c.rootsOf(n.list[3], out, depth+1)
		return
	case h == "select" && len(n.list) == 3:
		c.rootsOf(n.list[1], out, depth+1)
		return
	case h == "store" && len(n.list) == 4:
		c.rootsOf(n.list[1], out, depth+1)
		c.rootsOf(n.list[3], out, depth+1)
		return
	}
	start := 0
	if h != "" {
		start = 1
	}
	for _, ch := range n.list[start:] {
		c.rootsOf(ch, out, depth+1)
	}
}

// DataSymbols: the free symbols the terms depend on through data positions only:
// the condition of an `ite` is skipped (explicit flows; which of two public values
// was chosen is not tracked), definitions are looked through.
func (c *Ctx) DataSymbols(ts ...Term) map[string]bool {
	c.mu.Lock()
	defer c.mu.Unlock()
	c.index()
	if c.dataMemo == nil {
		c.dataMemo = map[string]map[string]bool{}
	}
	out := map[string]bool{}
	for _, t := range ts {
		for s := range c.dataSyms(t.S, 0) {
			out[s] = true
		}
	}
	return out
}

type sx struct {
	atom string
	list []*sx
}

func parseSx(toks []string, i int) (*sx, int) {
	if i >= len(toks) {
		return &sx{}, i
	}
	if toks[i] != "(" {
		return &sx{atom: toks[i]}, i + 1
	}
	n := &sx{list: []*sx{}}
	i++
	for i < len(toks) && toks[i] != ")" {
		var ch *sx
		ch, i = parseSx(toks, i)
		n.list = append(n.list, ch)
	}
	return n, i + 1
}

func (n *sx) String() string {
	if n.list == nil {
		return n.atom
	}
	var parts []string
	for _, c := range n.list {
		parts = append(parts, c.String())
	}
	return "(" + strings.Join(parts, " ") + ")"
}

func (n *sx) head() string {
	if n.list != nil && len(n.list) > 0 && n.list[0].list == nil {
		return n.list[0].atom
	}
	return ""
}

// bodyOf: the parsed body of a definition (nil for declared symbols / operators).
func (c *Ctx) bodyOf(sym string) *sx {
	idx, ok := c.byName[sym]
	if !ok || !c.info[idx].isDef {
		return nil
	}
	if c.sxMemo == nil {
		c.sxMemo = map[string]*sx{}
	}
	if b, ok := c.sxMemo[sym]; ok {
		return b
	}
	toks := sexpTokens(c.lines[idx])
	// ( define-fun name ( ) sort body )
	root, _ := parseSx(toks, 0)
	var body *sx
	if root.list != nil && len(root.list) >= 5 {
		body = root.list[4]
	}
	c.sxMemo[sym] = body
	return body
}

// unfold: follow definitions while the node is a defined atom.
func (c *Ctx) unfold(n *sx) *sx {
	for k := 0; k < 64 && n != nil && n.list == nil; k++ {
		b := c.bodyOf(n.atom)
		if b == nil {
			return n
		}
		n = b
	}
	return n
}

func (c *Ctx) sameTerm(a, b *sx, depth int) bool {
	if a != nil && b != nil && a.list == nil && b.list == nil && a.atom == b.atom {
		return true
	}
	a, b = c.unfold(a), c.unfold(b)
	if a == nil || b == nil {
		return false
	}
	if a.list == nil || b.list == nil {
		return a.list == nil && b.list == nil && a.atom == b.atom
	}
	if len(a.list) != len(b.list) || depth > 6 {
		return false
	}
	for i := range a.list {
		if !c.sameTerm(a.list[i], b.list[i], depth+1) {
			return false
		}
	}
	return true
}

func isLitSx(n *sx) bool {
	return n != nil && n.list != nil && len(n.list) == 3 && n.list[0].atom == "_" && strings.HasPrefix(n.list[1].atom, "bv")
}

// selectOfStore: the value read by (select arr idx) when arr is a chain of
// stores whose indices are syntactically equal to idx (returns it) or literal
// and different from a literal idx (skipped).
func (c *Ctx) selectOfStore(arr, idx *sx, depth int) (*sx, bool) {
	arr = c.unfold(arr)
	if arr == nil || depth > 200 {
		return nil, false
	}
	if depth > 0 && (arr.list == nil || arr.head() != "store") {
		// stores at other indices were skipped: what remains is a read of the rest
		return &sx{list: []*sx{{atom: "select"}, arr, idx}}, true
	}
	if arr.list == nil {
		return nil, false
	}
	if arr.head() == "store" && len(arr.list) == 4 {
		if c.sameTerm(arr.list[2], idx, 0) {
			return arr.list[3], true
		}
		i1, i2 := c.unfold(arr.list[2]), c.unfold(idx)
		if isLitSx(i1) && isLitSx(i2) && i1.String() != i2.String() {
			return c.selectOfStore(arr.list[1], idx, depth+1)
		}
		// ASSUMED for the dependency analysis: a slice id freshly returned by a call
		// that is not followed is not one of the ids the code stored under before
		if i2 != nil && i2.list == nil && strings.Contains(i2.atom, "_r") && strings.Contains(i2.atom, "__id") && !c.sameTerm(i1, i2, 0) {
			return c.selectOfStore(arr.list[1], idx, depth+1)
		}
	}
	return nil, false
}

// simplifySelect reduces (select arr idx) through store chains, also when arr is
// itself a reducible select (nested arrays); returns n itself when nothing applies.
func (c *Ctx) simplifySelect(n *sx, depth int) *sx {
	if n == nil || n.head() != "select" || len(n.list) != 3 || depth > 50 {
		return n
	}
	arr := c.unfold(n.list[1])
	if arr != nil && arr.head() == "select" {
		if r := c.simplifySelect(arr, depth+1); r != arr {
			arr = r
		}
	}
	if arr != nil && arr.head() == "ite" && len(arr.list) == 4 {
		// select distributes over a merge of two heaps
		mk := func(a *sx) *sx {
			return &sx{list: []*sx{{atom: "select"}, a, n.list[2]}}
		}
		return &sx{list: []*sx{{atom: "ite"}, arr.list[1], mk(arr.list[2]), mk(arr.list[3])}}
	}
	if v, ok := c.selectOfStore(arr, n.list[2], 0); ok {
		u := c.unfold(v)
		if u != nil && u.head() == "select" {
			return c.simplifySelect(u, depth+1)
		}
		return v
	}
	return n
}

func (c *Ctx) dataSyms(expr string, depth int) map[string]bool {
	out := map[string]bool{}
	toks := sexpTokens(expr)
	i := 0
	for i < len(toks) {
		var n *sx
		n, i = parseSx(toks, i)
		c.depsOf(n, out, 0)
	}
	return out
}

func (c *Ctx) depsOf(n *sx, out map[string]bool, depth int) {
	if n == nil || depth > 2000 {
		return
	}
	if n.list == nil {
		tok := n.atom
		if tok == "" || tok[0] == '#' || (tok[0] >= '0' && tok[0] <= '9') {
			return
		}
		idx, ok := c.byName[tok]
		if !ok {
			return
		}
		if !c.info[idx].isDef {
			out[tok] = true
			return
		}
		if m, ok := c.dataMemo[tok]; ok {
			for s := range m {
				out[s] = true
			}
			return
		}
		c.dataMemo[tok] = map[string]bool{}
		m := map[string]bool{}
		c.depsOf(c.bodyOf(tok), m, depth+1)
		c.dataMemo[tok] = m
		for s := range m {
			out[s] = true
		}
		return
	}
	switch n.head() {
	case "_", "as":
		return
	case "ite":
		if len(n.list) == 4 {
			c.depsOf(n.list[2], out, depth+1)
			c.depsOf(n.list[3], out, depth+1)
			return
		}
	case "select":
		if len(n.list) == 3 {
			if v := c.simplifySelect(n, 0); v != n {
				c.depsOf(v, out, depth+1)
				return
			}
		}
	}
	start := 0
	if n.head() != "" {
		start = 1 // the operator / function symbol itself is not data
	}
	for _, ch := range n.list[start:] {
		c.depsOf(ch, out, depth+1)
	}
}

func sexpTokens(s string) []string {
	var toks []string
	i := 0
	for i < len(s) {
		ch := s[i]
		switch {
		case ch == '(' || ch == ')':
			toks = append(toks, string(ch))
			i++
		case ch == ' ' || ch == '\n' || ch == '\t':
			i++
		case ch == '|':
			j := strings.IndexByte(s[i+1:], '|')
			if j < 0 {
				toks = append(toks, s[i:])
				i = len(s)
			} else {
				toks = append(toks, s[i:i+j+2])
				i += j + 2
			}
		default:
			j := i
			for j < len(s) && s[j] != '(' && s[j] != ')' && s[j] != ' ' && s[j] != '\n' && s[j] != '\t' {
				j++
			}
			toks = append(toks, s[i:j])
			i = j
		}
	}
	return toks
}

// Explain unfolds definitions a few levels (debugging aid).
func (c *Ctx) Explain(ts []Term, depth int) string {
	c.mu.Lock()
	defer c.mu.Unlock()
	c.index()
	var b strings.Builder
	seen := map[string]bool{}
	var walk func(s string, d int)
	walk = func(s string, d int) {
		for _, sym := range symbolsOf(s) {
			idx, ok := c.byName[sym]
			if !ok || seen[sym] || !c.info[idx].isDef || d > depth {
				continue
			}
			seen[sym] = true
			l := c.lines[idx]
			if len(l) > 260 {
				l = l[:260] + "..."
			}
			b.WriteString("\n      " + strings.Repeat(" ", d) + l)
			walk(c.lines[idx][strings.Index(c.lines[idx], " () ")+4:], d+1)
		}
	}
	for _, t := range ts {
		b.WriteString("\n    " + t.S)
		walk(t.S, 0)
	}
	return b.String()
}
