package main

// FSM layer, part 3: per-state verification units. For every state of a table
// the action chain found by evaluating the table constructor is executed
// symbolically (the wrapped `next` actions are dispatched statically), under the
// state's entry invariant. Obligations:
//   #returns            the action returns only events the state accepts (or NoOp / Event_Done)
//   #inv[E->label]      result == E  ==>  entry invariant `label` of the successor state
//   #rest[label]        result in {NoOp, Event_OnRetry}  ==>  rest invariant `label` of the state
//   #keeps[label]       the state's own entry invariant still holds afterwards (recovery re-runs the action)
//   #call[...]          preconditions of environment contracts at every call site in the chain
// Message contexts are applied by SendEvent *before* the event is checked against
// the state, so for every state and message type:
//   #ctx[T].keeps[label]   Validate+ApplyToSwapData of T preserves the state's invariants
//   #ctx[T].inv[E->label]  ... and establishes the successor's entry invariant when E is accepted
// and for events without context:  #edge[E].inv[label].

import (
	"fmt"
	"go/types"
	"sort"
	"strings"

	"golang.org/x/tools/go/ssa"
)

type eventSite struct {
	event string // event value
	ctx   string // message type name ("" = nil context, "?" = unknown)
}

// scanSendEventSites finds (event, context type) pairs at the call sites of SendEvent.
func (e *Engine) scanSendEventSites(pkgPath string) []eventSite {
	var out []eventSite
	seen := map[eventSite]bool{}
	for key, fn := range e.funcs {
		if !strings.HasPrefix(key, pkgPath+"::") {
			continue
		}
		for _, b := range fn.Blocks {
			for _, ins := range b.Instrs {
				call, ok := ins.(*ssa.Call)
				if !ok {
					continue
				}
				callee := call.Call.StaticCallee()
				if callee == nil || callee.Name() != "SendEvent" || len(call.Call.Args) != 3 {
					continue
				}
				ev, ok := call.Call.Args[1].(*ssa.Const)
				if !ok || ev.Value == nil {
					continue
				}
				s := eventSite{event: strings.Trim(ev.Value.ExactString(), "\"")}
				switch c := call.Call.Args[2].(type) {
				case *ssa.Const:
					s.ctx = ""
				case *ssa.MakeInterface:
					t := c.X.Type()
					if p, ok := t.(*types.Pointer); ok {
						t = p.Elem()
					}
					s.ctx = types.TypeString(t, func(*types.Package) string { return "" })
				default:
					s.ctx = "?"
				}
				if !seen[s] {
					seen[s] = true
					out = append(out, s)
				}
			}
		}
	}
	sort.Slice(out, func(i, j int) bool { return out[i].event+out[i].ctx < out[j].event+out[j].ctx })
	return out
}

type unitCtx struct {
	r      *Run
	tb     *Table
	pkg    string
	sets   map[string]map[string]bool
	invs   []*StateInv
	sites  []eventSite
	prop   string
}

func (u *unitCtx) applies(inv *StateInv, st *TState) bool {
	if inv.Target == st.constOrDefault() {
		return true
	}
	if set, ok := u.sets[inv.Target]; ok {
		return set[st.Name]
	}
	return false
}

func (u *unitCtx) invsFor(st *TState, rest bool) []*StateInv {
	var out []*StateInv
	for _, inv := range u.invs {
		if inv.Rest == rest && !inv.Step && u.applies(inv, st) {
			out = append(out, inv)
		}
	}
	return out
}

func (u *unitCtx) stepsFor(st *TState) []*StateInv {
	var out []*StateInv
	for _, inv := range u.invs {
		if inv.Step && u.applies(inv, st) {
			out = append(out, inv)
		}
	}
	return out
}

// persist models swapStore.UpdateData at the points where SendEvent/Recover
// call it: every durable ghost mirror takes the current value of its expression.
func (u *unitCtx) persist(x *Exec, st *State, env *specEnv) {
	for _, d := range u.r.eng.cs.Durables {
		if d.PkgPath != u.pkg {
			continue
		}
		g, ok := st.ghost[d.Ghost]
		if !ok {
			specFail("durable: unknown ghost %s", d.Ghost)
		}
		e2 := *env
		e2.st = st
		x.specDepth++
		v := x.evalSpec(d.Clause.Expr, &e2, TTrue)
		x.specDepth--
		v = x.scalarize(x.materialize(v, g.T))
		if len(v.L) != len(g.L) {
			specFail("durable %s: expression does not have the ghost's type", d.Ghost)
		}
		nv := Val{T: g.T, L: make([]Term, len(v.L))}
		for i := range v.L {
			nv.L[i] = x.c.Define("dur_"+d.Ghost, v.L[i])
		}
		st.ghost[d.Ghost] = nv
	}
}

func (r *Run) addStateUnits(prop string) {
	cs := r.eng.cs
	for _, decl := range cs.StateUnits {
		if !hasProp(decl.Props, prop) {
			continue
		}
		tb, err := r.loadTable(decl.PkgPath, decl.Table)
		if err != nil {
			r.Stale = append(r.Stale, err.Error())
			continue
		}
		u := &unitCtx{r: r, tb: tb, pkg: decl.PkgPath, sets: map[string]map[string]bool{}, prop: prop}
		for _, s := range cs.Tables {
			if s.PkgPath == decl.PkgPath && s.Name == decl.Table && s.Kind == "set" && len(s.Args) >= 1 {
				set := map[string]bool{}
				for _, id := range s.Args[1:] {
					if st := tb.stateByConst(id); st != nil {
						set[st.Name] = true
					}
				}
				u.sets[s.Args[0]] = set
			}
		}
		for _, inv := range cs.StateInvs {
			if inv.PkgPath == decl.PkgPath && inv.Table == decl.Table {
				u.invs = append(u.invs, inv)
			}
		}
		u.sites = r.eng.scanSendEventSites(decl.PkgPath)
		for _, st := range tb.sortedStates() {
			if st.HasAction {
				if err := u.stateUnit(st); err != nil {
					r.Stale = append(r.Stale, fmt.Sprintf("state unit %s/%s: %v", tb.Name, st.constOrDefault(), err))
				}
			}
			if err := u.edgeUnits(st); err != nil {
				r.Stale = append(r.Stale, fmt.Sprintf("edge units %s/%s: %v", tb.Name, st.constOrDefault(), err))
			}
		}
	}
}

func (u *unitCtx) executeMethod(t types.Type) *ssa.Function {
	prog := u.r.eng.prog
	var pkg *types.Package
	tt := t
	if p, ok := tt.(*types.Pointer); ok {
		tt = p.Elem()
	}
	if n, ok := tt.(*types.Named); ok {
		pkg = n.Obj().Pkg()
	}
	sel := prog.MethodSets.MethodSet(t).Lookup(pkg, "Execute")
	if sel == nil {
		return nil
	}
	return prog.MethodValue(sel)
}

// newUnitExec prepares an Exec for a synthetic unit.
func (u *unitCtx) newUnitExec(top *ssa.Function, name string, loops map[int][]*Clause) *Exec {
	ct := &Contract{PkgPath: u.pkg, Name: name, Loops: loops}
	if ct.Loops == nil {
		ct.Loops = map[int][]*Clause{}
	}
	x := &Exec{e: u.r.eng, c: NewCtx(), reg: &heapReg{sorts: map[string]Sort{}}, obls: map[string]*Oblig{}, top: top, ct: ct,
		inlined: map[string]bool{}, havocked: map[string]bool{}, usedContracts: map[string]bool{},
		knownNonNil: map[string]bool{}, globalsSeen: map[string]bool{}, rangeOf: map[*ssa.Range]Val{}, nameOverride: name}
	return x
}

func (x *Exec) chainReceiver(callee *ssa.Function, recv Val, reach Term) Val {
	rt := callee.Params[0].Type()
	if _, ok := rt.Underlying().(*types.Pointer); ok {
		ref := x.c.Fresh("actionobj", SRef)
		x.c.Assume(Not(Eq(ref, BVLit(0, 32))))
		x.c.Assume(Op("bvult", SBool, ref, x.c.Named("ctr0", SRef)))
		return Val{T: rt, L: []Term{ref}}
	}
	return freshVal(x.c, "actionval", rt)
}

func (u *unitCtx) stateUnit(st *TState) (err error) {
	var fns []*ssa.Function
	for _, t := range st.Chain {
		f := u.executeMethod(t)
		if f == nil || len(f.Blocks) == 0 {
			return fmt.Errorf("no Execute body for %s", typeKey(t))
		}
		fns = append(fns, f)
	}
	top := fns[0]
	name := fmt.Sprintf("swap.%s#state[%s]", u.tb.Name, st.constOrDefault())
	var loops map[int][]*Clause
	if own := u.r.eng.cs.Funcs[funcPkgPath(top)+"::"+funcRelName(top)]; own != nil {
		loops = own.Loops
	}
	x := u.newUnitExec(top, name, loops)
	x.chain = fns
	defer func() {
		if rr := recover(); rr != nil {
			if se, ok := rr.(specError); ok {
				err = fmt.Errorf("%s", se.msg)
				return
			}
			panic(rr)
		}
	}()
	st0 := x.newState()
	x.initGhosts(st0, u.pkg)
	names := map[string]Val{}
	var args []Val
	for i, p := range top.Params {
		v := freshVal(x.c, "arg_"+p.Name(), p.Type())
		x.wellFormed(v, st0)
		args = append(args, v)
		names[p.Name()] = v
		if _, isPtr := p.Type().Underlying().(*types.Pointer); isPtr {
			x.c.Assume(Not(Eq(v.L[0], BVLit(0, 32)))) // SendEvent/Recover pass non-nil services, data and action
		}
		if i > 0 {
			x.cexBase = append(x.cexBase, x.cexOf("in."+p.Name(), v, st0, 1)...)
		}
	}
	pkg := u.r.eng.typesPkg(u.pkg)
	env := &specEnv{x: x, names: names, st: st0, old: st0, pkg: pkg, sig: top.Signature}
	x.specDepth++
	for _, inv := range u.invsFor(st, false) {
		x.c.Assume(x.evalBool(inv.Clause.Expr, env, TTrue))
	}
	x.specDepth--
	entry := st0.clone()
	rets := x.runFunc(top, args, nil, st0, TTrue, 0, true, env)
	var live []Term
	evTerm := func(v string) Term { return x.c.StrLit(v) }
	terminal := len(st.Events) == 0
	var evs []string
	for e := range st.Events {
		evs = append(evs, e)
	}
	sort.Strings(evs)
	for ri, rt := range rets {
		if rt.panicked {
			continue
		}
		live = append(live, rt.reach)
		res := rt.vals[0].L[0]
		where := fmt.Sprintf("return #%d", ri)
		cex := append([]CexTerm{}, x.cexBase...)
		cex = append(cex, CexTerm{"out.result0", res})
		for i, p := range top.Params {
			if i > 0 {
				if _, isPtr := p.Type().Underlying().(*types.Pointer); isPtr {
					cex = append(cex, x.cexOf("out."+p.Name(), args[i], rt.st, 1)...)
				}
			}
		}
		mkEnv := func() *specEnv {
			return &specEnv{x: x, names: names, st: rt.st, old: entry, pkg: pkg, results: rt.vals, sig: top.Signature}
		}
		// two-state invariants across the action (before the store write)
		for k, inv := range u.stepsFor(st) {
			x.specDepth++
			g := x.evalBool(inv.Clause.Expr, mkEnv(), rt.reach)
			x.specDepth--
			on := fmt.Sprintf("%s#step[%s]", name, clauseLabel(inv.Clause, k))
			x.addObl(on, "state", inv.Clause.Text, inv.Clause.Props,
				OblPart{NegGoal: And(rt.reach, x.notGoal(g)), NAssume: len(x.c.Assumes), Where: where, Cex: cex}, false)
		}
		// SendEvent/Recover persist the swap right after the action returns
		rt.st = rt.st.clone()
		u.persist(x, rt.st, mkEnv())
		// R1: only accepted events
		allowed := []Term{Eq(res, evTerm("NoOp"))}
		for _, e := range evs {
			allowed = append(allowed, Eq(res, evTerm(e)))
		}
		if terminal {
			allowed = append(allowed, Eq(res, evTerm("Event_Done")))
		}
		if !st.FailOnrecover && !terminal {
			// a failed action in a state that does not handle the failure leaves the
			// machine in that state (ErrEventRejected); the state's action is run again
			// by Recover after the next restart. Under C16's premises (failing services
			// eventually succeed, restarts recur) that is a retry, not a dead end.
			allowed = append(allowed, Eq(res, evTerm("Event_ActionFailed")))
		}
		x.addObl(name+"#returns", "state", "the action chain returns only events the state accepts (otherwise SendEvent ends in ErrEventRejected and the swap is stuck)",
			[]string{"C16"}, OblPart{NegGoal: And(rt.reach, Not(Or(allowed...))), NAssume: len(x.c.Assumes), Where: where, Cex: cex}, false)
		// R2: successor entry invariants
		for _, e := range evs {
			nx := u.tb.States[st.Events[e]]
			if nx == nil {
				continue
			}
			for k, inv := range u.invsFor(nx, false) {
				x.specDepth++
				g := x.evalBool(inv.Clause.Expr, mkEnv(), rt.reach)
				x.specDepth--
				on := fmt.Sprintf("%s#inv[%s->%s.%s]", name, u.tb.EventConst[e], nx.constOrDefault(), clauseLabel(inv.Clause, k))
				x.addObl(on, "state", inv.Clause.Text, inv.Clause.Props,
					OblPart{NegGoal: And(rt.reach, Eq(res, evTerm(e)), x.notGoal(g)), NAssume: len(x.c.Assumes), Where: where, Cex: cex}, false)
			}
		}
		// R3: rest invariants
		atRest := Or(Eq(res, evTerm("NoOp")), Eq(res, evTerm("Event_OnRetry")), Eq(res, evTerm("Event_Done")))
		for k, inv := range u.invsFor(st, true) {
			x.specDepth++
			g := x.evalBool(inv.Clause.Expr, mkEnv(), rt.reach)
			x.specDepth--
			on := fmt.Sprintf("%s#rest[%s]", name, clauseLabel(inv.Clause, k))
			x.addObl(on, "state", inv.Clause.Text, inv.Clause.Props,
				OblPart{NegGoal: And(rt.reach, atRest, x.notGoal(g)), NAssume: len(x.c.Assumes), Where: where, Cex: cex}, false)
		}
		// keeps: own entry invariants survive the action (recovery re-runs it)
		for k, inv := range u.invsFor(st, false) {
			x.specDepth++
			g := x.evalBool(inv.Clause.Expr, mkEnv(), rt.reach)
			x.specDepth--
			on := fmt.Sprintf("%s#keeps[%s]", name, clauseLabel(inv.Clause, k))
			x.addObl(on, "state", inv.Clause.Text, inv.Clause.Props,
				OblPart{NegGoal: And(rt.reach, x.notGoal(g)), NAssume: len(x.c.Assumes), Where: where, Cex: cex}, false)
		}
	}
	x.coverReach = Or(live...)
	u.r.addExec(x, u.prop)
	return nil
}

// edgeUnits: message contexts and context-free events at state st.
func (u *unitCtx) edgeUnits(st *TState) (err error) {
	entryS := u.invsFor(st, false)
	restS := u.invsFor(st, true)
	// which events are accepted with which context types
	type pair struct{ ev, ctx string }
	ctxTypes := map[string]bool{}
	var nilEvents []string
	nilSeen := map[string]bool{}
	for _, s := range u.sites {
		if s.ctx == "" {
			if !nilSeen[s.event] {
				nilSeen[s.event] = true
				nilEvents = append(nilEvents, s.event)
			}
		} else if s.ctx != "?" {
			ctxTypes[s.ctx] = true
		}
	}
	// Event_OnInvalid_Message and Event_ActionFailed are also sent without context by SendEvent/Recover
	for _, e := range []string{"Event_Invalid_Message", "Event_ActionFailed"} {
		if !nilSeen[e] {
			nilSeen[e] = true
			nilEvents = append(nilEvents, e)
		}
	}
	sort.Strings(nilEvents)
	pkg := u.r.eng.typesPkg(u.pkg)
	swapT := types.NewPointer(pkg.Scope().Lookup("SwapData").Type())
	base := fmt.Sprintf("swap.%s#state[%s]", u.tb.Name, st.constOrDefault())

	// --- context-free events ---
	for _, ev := range nilEvents {
		nxName, ok := st.Events[ev]
		if !ok {
			continue
		}
		if ev == "Event_ActionFailed" && !st.FailOnrecover && !st.hasActionType("AwaitTxConfirmationAction") {
			// Event_ActionFailed comes from outside only through Recover (FailOnrecover
			// states) and through the confirmation watcher's failure callback
			continue
		}
		nx := u.tb.States[nxName]
		if nx == nil {
			continue
		}
		targets := u.invsFor(nx, false)
		if len(targets) == 0 {
			continue
		}
		dummy := u.anyFunc()
		x := u.newUnitExec(dummy, base, nil)
		func() {
			defer func() {
				if rr := recover(); rr != nil {
					if se, ok := rr.(specError); ok {
						err = fmt.Errorf("%s", se.msg)
						return
					}
					panic(rr)
				}
			}()
			st0 := x.newState()
			x.initGhosts(st0, u.pkg)
			sw := freshVal(x.c, "arg_swap", swapT)
			x.wellFormed(sw, st0)
			x.c.Assume(Not(Eq(sw.L[0], BVLit(0, 32))))
			names := map[string]Val{"swap": sw}
			env := &specEnv{x: x, names: names, st: st0, old: st0, pkg: pkg}
			x.specDepth++
			for _, inv := range append(append([]*StateInv{}, entryS...), restS...) {
				x.c.Assume(x.evalBool(inv.Clause.Expr, env, TTrue))
			}
			x.specDepth--
			cexBase := x.cexOf("in.swap", sw, st0, 1)
			// fields the service rewrites before sending this event
			evConst := u.tb.EventConst[ev]
			for _, f := range u.r.eng.cs.EventHavoc[evConst] {
				a, ok := x.evalAddrOf(sw, f)
				if ok {
					x.store(st0, a, freshVal(x.c, "evh_"+f, a.FT))
				}
			}
			u.persist(x, st0, env) // SendEvent writes the swap before it looks up the transition
			for k, inv := range targets {
				x.specDepth++
				g := x.evalBool(inv.Clause.Expr, env, TTrue)
				x.specDepth--
				on := fmt.Sprintf("%s#edge[%s].inv[%s.%s]", base, evConst, nx.constOrDefault(), clauseLabel(inv.Clause, k))
				x.addObl(on, "state", inv.Clause.Text, inv.Clause.Props,
					OblPart{NegGoal: x.notGoal(g), NAssume: len(x.c.Assumes), Where: "event without context", Cex: cexBase}, false)
			}
			x.coverReach = TTrue
			u.r.addExec(x, u.prop)
		}()
		if err != nil {
			return err
		}
	}

	// --- message contexts ---
	if len(entryS)+len(restS) == 0 {
		// nothing to preserve here; successor invariants through messages still matter
	}
	var cts []string
	for c := range ctxTypes {
		cts = append(cts, c)
	}
	sort.Strings(cts)
	for _, cname := range cts {
		obj := pkg.Scope().Lookup(cname)
		if obj == nil {
			continue
		}
		if scope, ok := u.r.eng.cs.CtxScope[cname]; ok {
			in := false
			for _, s := range scope {
				if s == st.constOrDefault() {
					in = true
				}
			}
			if !in {
				continue
			}
		}
		mt := obj.Type()
		// events this context type arrives with, accepted in st
		var accepted []string
		for _, s := range u.sites {
			if s.ctx == cname {
				if _, ok := st.Events[s.event]; ok {
					accepted = append(accepted, s.event)
				}
			}
		}
		needed := len(entryS)+len(restS) > 0
		for _, ev := range accepted {
			if nx := u.tb.States[st.Events[ev]]; nx != nil && len(u.invsFor(nx, false)) > 0 {
				needed = true
			}
		}
		if !needed {
			continue
		}
		// SendEvent rejects an event the current state does not accept before it
		// touches the swap data (obligation SendEvent#call[EventContext.
		// ApplyToSwapData].pre[accepted]); only accepted (event, message) pairs
		// can change the record.
		applyAlways := !u.r.eng.applyOnlyAccepted()
		if len(accepted) == 0 && !applyAlways {
			continue
		}
		val := u.r.eng.funcs[u.pkg+"::("+cname+").Validate"]
		app := u.r.eng.funcs[u.pkg+"::("+cname+").ApplyToSwapData"]
		if val == nil {
			val = u.r.eng.funcs[u.pkg+"::(*"+cname+").Validate"]
		}
		if app == nil {
			app = u.r.eng.funcs[u.pkg+"::(*"+cname+").ApplyToSwapData"]
		}
		if val == nil || app == nil || len(val.Blocks) == 0 || len(app.Blocks) == 0 {
			return fmt.Errorf("no Validate/ApplyToSwapData for %s", cname)
		}
		x := u.newUnitExec(app, base, nil)
		func() {
			defer func() {
				if rr := recover(); rr != nil {
					if se, ok := rr.(specError); ok {
						err = fmt.Errorf("%s", se.msg)
						return
					}
					panic(rr)
				}
			}()
			st0 := x.newState()
			x.initGhosts(st0, u.pkg)
			sw := freshVal(x.c, "arg_swap", swapT)
			x.wellFormed(sw, st0)
			x.c.Assume(Not(Eq(sw.L[0], BVLit(0, 32))))
			names := map[string]Val{"swap": sw}
			env := &specEnv{x: x, names: names, st: st0, old: st0, pkg: pkg}
			x.specDepth++
			for _, inv := range append(append([]*StateInv{}, entryS...), restS...) {
				x.c.Assume(x.evalBool(inv.Clause.Expr, env, TTrue))
			}
			x.specDepth--
			cexBase := x.cexOf("in.swap", sw, st0, 1)
			theMsg := x.msgVal(mt) // one arbitrary message, validated and then applied
			var msgRef *Term
			mkRecv := func(f *ssa.Function) Val {
				rt := f.Params[0].Type()
				if _, ok := rt.Underlying().(*types.Pointer); ok {
					if msgRef == nil {
						ref := x.alloc(st0, mt, TTrue)
						x.store(st0, &Addr{Kind: addrObj, Base: ref, Obj: mt, FT: mt}, theMsg)
						msgRef = &ref
					}
					return Val{T: rt, L: []Term{*msgRef}}
				}
				return theMsg
			}
			x.topFrame = &frame{fn: app, vals: map[ssa.Value]Val{}}
			pre := st0.clone()
			// Validate
			r1 := x.inline(val, []Val{mkRecv(val), sw}, nil, st0, TTrue, 1)
			ok1 := Eq(r1[0].L[0], BVLit(0, 32))
			// ApplyToSwapData only when validation succeeded
			stA := st0.clone()
			r2 := x.inline(app, []Val{mkRecv(app), sw}, nil, stA, ok1, 1)
			ok2 := Eq(r2[0].L[0], BVLit(0, 32))
			after := x.mergeStates([]Term{Not(ok1), ok1}, []*State{st0, stA})
			envA := &specEnv{x: x, names: names, st: after, old: pre, pkg: pkg}
			cex := append(append([]CexTerm{}, cexBase...), x.cexOf("out.swap", sw, after, 1)...)
			cex = append(cex, CexTerm{"validate.err.#tag", r1[0].L[0]}, CexTerm{"apply.err.#tag", r2[0].L[0]})
			if st.HasAction {
				for k, inv := range u.stepsFor(st) {
					x.specDepth++
					g := x.evalBool(inv.Clause.Expr, envA, TTrue)
					x.specDepth--
					on := fmt.Sprintf("%s#ctx[%s].step[%s]", base, cname, clauseLabel(inv.Clause, k))
					x.addObl(on, "state", inv.Clause.Text, inv.Clause.Props,
						OblPart{NegGoal: x.notGoal(g), NAssume: len(x.c.Assumes), Where: "message " + cname + " applied", Cex: cex}, false)
				}
			}
			// SendEvent persists the swap after a successfully applied context
			persisted := after.clone()
			u.persist(x, persisted, envA)
			after = x.mergeStates([]Term{Not(And(ok1, ok2)), And(ok1, ok2)}, []*State{after, persisted})
			envA = &specEnv{x: x, names: names, st: after, old: pre, pkg: pkg}
			for k, inv := range append(append([]*StateInv{}, entryS...), restS...) {
				if !st.HasAction {
					break // the initial state is left by its first event; nothing rests or recovers there
				}
				if !applyAlways {
					break // an applied message always moves the machine on; the successor obligations cover it
				}
				x.specDepth++
				g := x.evalBool(inv.Clause.Expr, envA, TTrue)
				x.specDepth--
				on := fmt.Sprintf("%s#ctx[%s].keeps[%s]", base, cname, clauseLabel(inv.Clause, k))
				x.addObl(on, "state", inv.Clause.Text, inv.Clause.Props,
					OblPart{NegGoal: x.notGoal(g), NAssume: len(x.c.Assumes), Where: "message " + cname + " applied (SendEvent applies before checking the state)", Cex: cex}, false)
			}
			for _, ev := range accepted {
				nx := u.tb.States[st.Events[ev]]
				if nx == nil {
					continue
				}
				for k, inv := range u.invsFor(nx, false) {
					x.specDepth++
					g := x.evalBool(inv.Clause.Expr, envA, TTrue)
					x.specDepth--
					on := fmt.Sprintf("%s#ctx[%s].inv[%s->%s.%s]", base, cname, u.tb.EventConst[ev], nx.constOrDefault(), clauseLabel(inv.Clause, k))
					x.addObl(on, "state", inv.Clause.Text, inv.Clause.Props,
						OblPart{NegGoal: And(ok1, ok2, x.notGoal(g)), NAssume: len(x.c.Assumes), Where: "message " + cname + " accepted", Cex: cex}, false)
				}
			}
			x.coverReach = TTrue
			u.r.addExec(x, u.prop)
		}()
		if err != nil {
			return err
		}
	}
	return nil
}

// msgVal: an arbitrary message value (what the peer may send).
func (x *Exec) msgVal(t types.Type) Val {
	v := freshVal(x.c, "msg", t)
	return v
}

func (u *unitCtx) anyFunc() *ssa.Function {
	return u.tb.Fn
}

// evalAddrOf: address of swap.<field>
func (x *Exec) evalAddrOf(sw Val, field string) (*Addr, bool) {
	a := x.toAddr(sw)
	stt, ok := a.FT.Underlying().(*types.Struct)
	if !ok {
		return nil, false
	}
	for k := 0; k < stt.NumFields(); k++ {
		if stt.Field(k).Name() == field {
			na := *a
			na.Path = joinPath(a.Path, field)
			na.FT = stt.Field(k).Type()
			return &na, true
		}
	}
	return nil, false
}
