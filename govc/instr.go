package main

import (
	"os"
	"fmt"
	"go/token"
	"go/types"
	"math"
	"math/big"
	"strings"

	"golang.org/x/tools/go/ssa"
)

func bvFromDecimal(s string, w int) Term {
	bi, ok := new(big.Int).SetString(s, 10)
	if !ok {
		panic("bvFromDecimal: " + s)
	}
	return BVLitBig(bi, w)
}

func fpLit(f float64, s Sort) Term {
	if s == SF64 {
		bits := math.Float64bits(f)
		return Term{fmt.Sprintf("((_ to_fp 11 53) (_ bv%d 64))", bits), SF64}
	}
	bits := math.Float32bits(float32(f))
	return Term{fmt.Sprintf("((_ to_fp 8 24) (_ bv%d 32))", bits), SF32}
}

// val returns the symbolic value of an SSA operand.
func (x *Exec) val(fr *frame, v ssa.Value) Val {
	switch k := v.(type) {
	case *ssa.Const:
		return x.ssaConst(k)
	case *ssa.Function:
		return Val{T: k.Type(), L: []Term{x.c.App("fn_"+k.String(), SBV(64))}}
	case *ssa.Global:
		ref := x.globalRef(k)
		return Val{T: k.Type(), L: []Term{ref}}
	case *ssa.Builtin:
		return Val{T: k.Type(), L: []Term{BVLit(0, 64)}}
	}
	if r, ok := fr.vals[v]; ok {
		return r
	}
	// value defined in an unreachable or not-yet-processed block (can happen for
	// phi edges from back edges); havoc it.
	x.c.Note("value %s of %s read before definition (havocked)", v.Name(), fr.fn.String())
	r := freshVal(x.c, fr.prefix+"_undef_"+v.Name(), v.Type())
	fr.vals[v] = r
	return r
}

func (x *Exec) globalRef(g *ssa.Global) Term {
	name := "glob_" + g.String()
	t := x.c.Named(name, SRef)
	if !x.globalsSeen[name] {
		x.globalsSeen[name] = true
		// globals live below the initial frontier, are non-nil and pairwise distinct
		x.c.Assume(Op("bvult", SBool, t, x.c.Named("ctr0", SRef)))
		x.c.Assume(Not(Eq(t, BVLit(0, 32))))
		for _, o := range x.globalList {
			x.c.Assume(Not(Eq(t, o)))
		}
		x.globalList = append(x.globalList, t)
		if x.e.nonNilErrorGlobals()[g] {
			// package-level `var ErrX = errors.New(..)`: non-nil once the package is initialised
			pt := g.Type().Underlying().(*types.Pointer).Elem()
			h0 := x.c.Named("H0_"+objKey(pt, "#tag"), SArr(SRef, SBV(32)))
			x.c.Assume(Not(Eq(Select(h0, t), BVLit(0, 32))))
			x.c.Note("package-level error variables assigned once from errors.New/fmt.Errorf by the package initialiser are non-nil")
		}
	}
	return t
}

func (x *Exec) setVal(fr *frame, v ssa.Value, r Val) {
	if r.A == nil {
		for i := range r.L {
			r.L[i] = x.c.Define(fr.prefix+"_"+v.Name(), r.L[i])
		}
	}
	if r.T == nil {
		r.T = v.Type()
	}
	fr.vals[v] = r
}

func (x *Exec) runBlock(fr *frame, b *ssa.BasicBlock, st *State, reach Term, rets *[]Ret) {
	for _, ins := range b.Instrs {
		if reach.IsFalse() {
			return
		}
		switch i := ins.(type) {
		case *ssa.Phi:
			continue
		case *ssa.DebugRef:
			continue
		case *ssa.If:
			c := x.materialize(x.val(fr, i.Cond), types.Typ[types.Bool]).L[0]
			c = x.c.Define(fr.prefix+"_c", c)
			fr.edge[[2]int{b.Index, 0}] = x.c.Define(fr.prefix+"_e", And(reach, c))
			fr.edge[[2]int{b.Index, 1}] = x.c.Define(fr.prefix+"_e", And(reach, Not(c)))
			fr.out[b] = st
			x.checkBackEdges(fr, b, st)
			return
		case *ssa.Jump:
			fr.edge[[2]int{b.Index, 0}] = reach
			fr.out[b] = st
			x.checkBackEdges(fr, b, st)
			return
		case *ssa.Return:
			var vs []Val
			for k, r := range i.Results {
				rt := fr.fn.Signature.Results().At(k).Type()
				vs = append(vs, x.scalarize(x.materialize(x.val(fr, r), rt)))
			}
			*rets = append(*rets, Ret{reach: reach, vals: vs, st: st, pos: x.pos(i.Pos())})
			return
		case *ssa.Panic:
			if fr.top && x.ct != nil && x.ct.NoPanic {
				x.addObl(x.fname()+"#nopanic[explicit]", "nopanic", "no explicit panic is reachable", x.ct.Props,
					OblPart{NegGoal: reach, NAssume: len(x.c.Assumes), Where: x.pos(i.Pos())}, false)
			}
			*rets = append(*rets, Ret{reach: reach, st: st, panicked: true})
			return
		case *ssa.Store:
			addr := x.val(fr, i.Addr)
			x.nilCheck(fr, addr, reach, i.Pos())
			x.sinkStore(x.toAddr(addr), x.val(fr, i.Val), reach, x.pos(i.Pos()))
			x.noteStore(x.toAddr(addr), x.val(fr, i.Val))
			x.store(st, x.toAddr(addr), x.val(fr, i.Val))
		case *ssa.MapUpdate:
			x.noteEscapes([]Val{x.val(fr, i.Key), x.val(fr, i.Value)})
			x.mapUpdate(fr, st, i, reach)
		case *ssa.Go:
			for _, a := range i.Call.Args {
				x.noteEscapes([]Val{x.val(fr, a)})
			}
			if !i.Call.IsInvoke() {
				if _, isFn := i.Call.Value.(*ssa.Function); !isFn {
					if _, isB := i.Call.Value.(*ssa.Builtin); !isB {
						x.noteEscapes([]Val{x.val(fr, i.Call.Value)})
					}
				}
			} else {
				x.noteEscapes([]Val{x.val(fr, i.Call.Value)})
			}
			x.c.Note("goroutine started in %s is not followed", fr.fn.String())
		case *ssa.Defer:
			d := &deferRec{instr: i, cond: reach}
			for _, a := range i.Call.Args {
				d.args = append(d.args, x.val(fr, a))
			}
			if !i.Call.IsInvoke() {
				if _, isFn := i.Call.Value.(*ssa.Function); !isFn {
					d.fnVal = x.val(fr, i.Call.Value)
				}
			} else {
				d.fnVal = x.val(fr, i.Call.Value)
			}
			fr.defers = append(fr.defers, d)
		case *ssa.RunDefers:
			x.runDefers(fr, st, reach)
		case *ssa.Send:
			x.noteEscapes([]Val{x.val(fr, i.X)})
			if x.ct != nil && x.ct.NoSend {
				x.addObl(x.fname()+"#nosend[send]", "nosend", "no blocking channel send is reachable", x.noSendProps(),
					OblPart{NegGoal: reach, NAssume: len(x.c.Assumes), Where: x.pos(i.Pos())}, false)
			}
			x.c.Note("channel send in %s modelled as no-op", fr.fn.String())
		case ssa.Value:
			r := x.valueInstr(fr, st, i, reach)
			x.setVal(fr, i, r)
		default:
			panic(fmt.Sprintf("unsupported instruction %T", ins))
		}
	}
}

func (x *Exec) checkBackEdges(fr *frame, b *ssa.BasicBlock, st *State) {
	for j, s := range b.Succs {
		if backEdge(b, s) {
			x.backEdgeObligations(fr, b, s, fr.edge[[2]int{b.Index, j}], st)
		}
	}
}

func (x *Exec) pos(p token.Pos) string {
	if !p.IsValid() {
		return ""
	}
	ps := x.e.fset.Position(p)
	f := ps.Filename
	if i := strings.Index(f, "/repo/"); i >= 0 {
		f = f[i+6:]
	}
	return fmt.Sprintf("%s:%d", f, ps.Line)
}

func (x *Exec) nilCheck(fr *frame, ptr Val, reach Term, p token.Pos) {
	var ref Term
	if ptr.A != nil {
		if ptr.A.Kind != addrObj {
			return
		}
		ref = ptr.A.Base
	} else {
		ref = ptr.L[0]
	}
	nonnil := Not(Eq(ref, BVLit(0, 32)))
	if x.knownNonNil[ref.S] {
		return // unconditionally non-nil (fresh allocation)
	}
	// the memo is path-sensitive: a dereference under a guard says nothing
	// about a later unguarded dereference of the same pointer
	key := ref.S + "@" + reach.S
	if x.knownNonNil[key] {
		return
	}
	if (fr.top && x.ct != nil && x.ct.NoPanic || x.noPanicAll) && x.specDepth == 0 {
		x.addObl(x.fname()+"#nopanic[nil]", "nopanic", "no nil dereference", x.propsOrNil(),
			OblPart{NegGoal: And(reach, Not(nonnil)), NAssume: len(x.c.Assumes), Where: x.pos(p)}, false)
	}
	if x.specDepth == 0 {
		x.assume(Imp(reach, nonnil))
		x.knownNonNil[key] = true
	}
}

func (x *Exec) propsOrNil() []string {
	if x.ct != nil {
		return x.ct.Props
	}
	return nil
}

func (x *Exec) valueInstr(fr *frame, st *State, ins ssa.Value, reach Term) Val {
	switch i := ins.(type) {
	case *ssa.Alloc:
		t := i.Type().Underlying().(*types.Pointer).Elem()
		ref := x.alloc(st, t, reach)
		x.knownNonNil[ref.S] = true
		x.c.Assume(Not(Eq(ref, BVLit(0, 32))))
		if arr, ok := arrayOf(t); ok {
			// a local array: its content survives calls that cannot reach it (see havocEffects)
			if es := shape(arr.Elem()); len(es) == 1 {
				// distinct array objects have distinct backing stores
				nid := x.arrSliceID(t, ref)
				for _, la := range x.localArrs {
					if la.key == sliceKey(arr.Elem(), es[0].Path) && la.ref != ref.S && la.base.S != "" {
						// (injectivity: the two references may denote the same object on
						// alternative paths, then the stores coincide)
						x.c.Assume(Imp(Not(Eq(ref, la.base)), Not(Eq(nid, la.id))))
					}
				}
				x.localArrs = append(x.localArrs, localArr{key: sliceKey(arr.Elem(), es[0].Path),
					srt: SArr(SBV(64), SArr(SBV(64), es[0].Sort)), id: x.arrSliceID(t, ref), ref: ref.S, base: ref})
				x.trackLocal(ref, nil)
			}
		} else if _, locs, ok := x.leafLocs(&Addr{Kind: addrObj, Base: ref, Obj: t, Path: "", FT: t}); ok && os.Getenv("GOVC_NO_LOCAL_OBJS") == "" {
			// a local object: its content survives calls that cannot reach it
			var cells []localCell
			for _, l := range locs {
				cells = append(cells, localCell{l.key, l.srt, l.idx1})
			}
			x.trackLocal(ref, cells)
		}
		return Val{T: i.Type(), L: []Term{ref}}
	case *ssa.FieldAddr:
		base := x.val(fr, i.X)
		x.nilCheck(fr, base, reach, i.Pos())
		a := x.toAddr(base)
		stt := a.FT.Underlying().(*types.Struct)
		f := stt.Field(i.Field)
		na := *a
		na.Path = joinPath(a.Path, f.Name())
		na.FT = f.Type()
		return Val{T: i.Type(), A: &na}
	case *ssa.Field:
		sv := x.val(fr, i.X)
		stt := sv.T.Underlying().(*types.Struct)
		lo, hi := structFieldRange(stt, i.Field)
		return Val{T: stt.Field(i.Field).Type(), L: append([]Term{}, sv.L[lo:hi]...)}
	case *ssa.Extract:
		tv := x.val(fr, i.Tuple)
		tp := i.Tuple.Type().(*types.Tuple)
		lo, hi := tupleFieldRange(tp, i.Index)
		return Val{T: tp.At(i.Index).Type(), L: append([]Term{}, tv.L[lo:hi]...)}
	case *ssa.UnOp:
		return x.unop(fr, st, i, reach)
	case *ssa.BinOp:
		a := x.val(fr, i.X)
		b := x.val(fr, i.Y)
		return x.binop(i.Op, a, b, i.X.Type(), i.Y.Type(), i.Type(), reach, fr, i.Pos())
	case *ssa.Convert:
		return x.convert(x.val(fr, i.X), i.X.Type(), i.Type())
	case *ssa.ChangeType:
		v := x.val(fr, i.X)
		v.T = i.Type()
		return v
	case *ssa.ChangeInterface:
		v := x.val(fr, i.X)
		v.T = i.Type()
		return v
	case *ssa.MakeInterface:
		return x.makeInterface(x.val(fr, i.X), i.X.Type(), i.Type())
	case *ssa.TypeAssert:
		return x.typeAssert(fr, i, reach)
	case *ssa.Call:
		return x.call(fr, st, i, reach)
	case *ssa.MakeMap:
		ref := x.alloc(st, i.Type(), reach)
		mt := i.Type()
		ks := shape(mt.Underlying().(*types.Map).Key())
		if len(ks) == 1 {
			key := mapKey(mt, "#has")
			arr := x.heapGet(st, key, SArr(SRef, SArr(ks[0].Sort, SBool)))
			x.heapSet(st, key, Store(arr, ref, Term{fmt.Sprintf("((as const %s) false)", SArr(ks[0].Sort, SBool)), SArr(ks[0].Sort, SBool)}))
		}
		x.c.Assume(Not(Eq(ref, BVLit(0, 32))))
		return Val{T: i.Type(), L: []Term{ref}}
	case *ssa.MakeSlice:
		n := x.materialize(x.val(fr, i.Len), types.Typ[types.Int])
		cp := x.materialize(x.val(fr, i.Cap), types.Typ[types.Int])
		id := x.freshSliceID(st)
		return Val{T: i.Type(), L: []Term{id, Extend(n.L[0], 64, true), Extend(cp.L[0], 64, true)}}
	case *ssa.MakeChan:
		return freshVal(x.c, fr.prefix+"_chan", i.Type())
	case *ssa.MakeClosure:
		for _, b := range i.Bindings {
			x.noteEscapes([]Val{x.val(fr, b)})
		}
		x.c.Note("closure %s created in %s: body not followed unless called with a callback contract", i.Fn.String(), fr.fn.String())
		return Val{T: i.Type(), L: []Term{x.c.Fresh("closure", SBV(64))}}
	case *ssa.Slice:
		return x.sliceOp(fr, st, i, reach)
	case *ssa.IndexAddr:
		return x.indexAddr(fr, st, i, reach)
	case *ssa.Index:
		xv := x.val(fr, i.X)
		iv := x.materialize(x.val(fr, i.Index), types.Typ[types.Int])
		if isString(i.X.Type()) {
			return Val{T: i.Type(), L: []Term{x.c.App("strbyte", SBV(8), xv.L[0], Extend(iv.L[0], 64, true))}}
		}
		if len(xv.L) == 1 && xv.L[0].Sort.IsArr() {
			return Val{T: i.Type(), L: []Term{Select(xv.L[0], Extend(iv.L[0], 64, true))}}
		}
		return freshVal(x.c, fr.prefix+"_idx", i.Type())
	case *ssa.Lookup:
		return x.lookup(fr, st, i, reach)
	case *ssa.Range:
		xv := x.val(fr, i.X)
		r := freshVal(x.c, fr.prefix+"_range", types.Typ[types.Int])
		x.rangeOf[i] = xv
		if m, ok := i.X.Type().Underlying().(*types.Map); ok {
			if ks := shape(m.Key()); len(ks) == 1 {
				if x.visited == nil {
					x.visited = map[*ssa.Range]Term{}
				}
				srt := SArr(ks[0].Sort, SBool)
				x.visited[i] = Term{fmt.Sprintf("((as const %s) false)", srt), srt}
			}
		}
		return Val{T: i.Type(), L: r.L}
	case *ssa.Next:
		return x.next(fr, st, i, reach)
	case *ssa.Select:
		if x.ct != nil && x.ct.NoSend && i.Blocking {
			for _, cs := range i.States {
				if cs.Dir == types.SendOnly {
					x.addObl(x.fname()+"#nosend[select]", "nosend", "no blocking select with a send case is reachable", x.noSendProps(),
						OblPart{NegGoal: reach, NAssume: len(x.c.Assumes), Where: x.pos(i.Pos())}, false)
					break
				}
			}
		}
		x.c.Note("select in %s: any case may be chosen (blocking not modelled)", fr.fn.String())
		tv := freshVal(x.c, fr.prefix+"_select", i.Type())
		// ghost history: the value last received from a channel parameter (spec: lastrecv(ch))
		tp := i.Type().(*types.Tuple)
		k := 2
		for _, cs := range i.States {
			if cs.Dir != types.RecvOnly {
				continue
			}
			if n := chanName(cs.Chan); n != "" && fr.top && k < tp.Len() {
				lo, hi := tupleFieldRange(tp, k)
				st.ghost["recv$"+n] = Val{T: tp.At(k).Type(), L: append([]Term{}, tv.L[lo:hi]...)}
			}
			k++
		}
		return tv
	case *ssa.SliceToArrayPointer, *ssa.MultiConvert:
		return freshVal(x.c, fr.prefix+"_conv", ins.Type())
	}
	panic(fmt.Sprintf("unsupported value instruction %T in %s", ins, fr.fn.String()))
}

// freshSliceID: the identity of a backing store allocated now (make, growing
// append): the allocation frontier, distinct from every store handed out
// before (ids of stores obtained otherwise -- results of deterministic library
// functions, array objects -- live above 2^62 or are unconstrained).
func (x *Exec) freshSliceID(st *State) Term {
	x.sliceCtr++
	if st == nil {
		id := x.c.Fresh("slice", SBV(64))
		x.c.Assume(Not(Eq(id, BVLit(0, 64))))
		return id
	}
	id := st.sctr
	st.sctr = x.c.Define("sctr", Op("bvadd", SBV(64), st.sctr, BVLit(1, 64)))
	return id
}

func (x *Exec) unop(fr *frame, st *State, i *ssa.UnOp, reach Term) Val {
	v := x.val(fr, i.X)
	switch i.Op {
	case token.MUL: // load
		x.nilCheck(fr, v, reach, i.Pos())
		return x.load(st, x.toAddr(v), reach)
	case token.NOT:
		v = x.materialize(v, types.Typ[types.Bool])
		return Val{T: i.Type(), L: []Term{Not(v.L[0])}}
	case token.SUB:
		v = x.materialize(v, i.Type())
		if isFloat(i.Type()) {
			return Val{T: i.Type(), L: []Term{Op("fp.neg", v.L[0].Sort, v.L[0])}}
		}
		return Val{T: i.Type(), L: []Term{Op("bvneg", v.L[0].Sort, v.L[0])}}
	case token.XOR:
		v = x.materialize(v, i.Type())
		return Val{T: i.Type(), L: []Term{Op("bvnot", v.L[0].Sort, v.L[0])}}
	case token.ARROW:
		x.c.Note("channel receive in %s yields an arbitrary value", fr.fn.String())
		rv := freshVal(x.c, fr.prefix+"_recv", i.Type())
		if n := chanName(i.X); n != "" && fr.top && !i.CommaOk {
			st.ghost["recv$"+n] = rv
		}
		return rv
	}
	panic("unop " + i.Op.String())
}

func (x *Exec) binop(op token.Token, a, b Val, ta, tb, tres types.Type, reach Term, fr *frame, p token.Pos) Val {
	// untyped constants take the other operand's type
	if a.C != nil && b.C == nil {
		a = x.constVal(a.C, b.T)
	} else if b.C != nil && a.C == nil {
		if op == token.SHL || op == token.SHR {
			b = x.constVal(b.C, types.Typ[types.Uint64])
		} else {
			b = x.constVal(b.C, a.T)
		}
	} else if a.C != nil && b.C != nil {
		a = x.constVal(a.C, ta)
		b = x.constVal(b.C, tb)
	}
	a = x.scalarize(a)
	b = x.scalarize(b)
	boolRes := func(t Term) Val { return Val{T: types.Typ[types.Bool], L: []Term{t}} }
	switch op {
	case token.EQL, token.NEQ:
		var e Term
		if len(a.L) != len(b.L) {
			// comparison of interface with nil pointer constant etc.
			if len(a.L) == 2 && len(b.L) == 1 {
				e = Eq(a.L[0], BVLit(0, 32))
			} else if len(b.L) == 2 && len(a.L) == 1 {
				e = Eq(b.L[0], BVLit(0, 32))
			} else if len(a.L) == 3 && len(b.L) == 1 { // slice == nil
				e = Eq(a.L[0], BVLit(0, 64))
			} else if len(b.L) == 3 && len(a.L) == 1 {
				e = Eq(b.L[0], BVLit(0, 64))
			} else {
				panic(fmt.Sprintf("binop ==: shape mismatch %v vs %v", a.T, b.T))
			}
		} else if _, isSlice := a.T.Underlying().(*types.Slice); isSlice {
			// only comparison with nil is legal
			e = Eq(a.L[0], b.L[0])
			if b.T != nil {
				if _, bs := b.T.Underlying().(*types.Slice); !bs {
					e = Eq(a.L[0], BVLit(0, 64))
				}
			}
		} else if len(a.L) == 2 && ((a.T != nil && types.IsInterface(a.T)) || (b.T != nil && types.IsInterface(b.T))) {
			// interfaces: nil-ness is decided by the type tag alone
			e = And(Eq(a.L[0], b.L[0]), Or(Eq(a.L[0], BVLit(0, 32)), Eq(a.L[1], b.L[1])))
		} else {
			e = eqVal(a, b)
		}
		if op == token.NEQ {
			e = Not(e)
		}
		return boolRes(e)
	}
	t := ta
	if a.T != nil {
		t = a.T
	}
	if isString(t) {
		switch op {
		case token.ADD:
			return Val{T: tres, L: []Term{x.c.App("strcat", SStr, a.L[0], b.L[0])}}
		case token.LSS, token.LEQ, token.GTR, token.GEQ:
			lt := func(p, q Term) Term { return x.c.App("strlt", SBool, p, q) }
			switch op {
			case token.LSS:
				return boolRes(lt(a.L[0], b.L[0]))
			case token.GTR:
				return boolRes(lt(b.L[0], a.L[0]))
			case token.LEQ:
				return boolRes(Not(lt(b.L[0], a.L[0])))
			default:
				return boolRes(Not(lt(a.L[0], b.L[0])))
			}
		}
	}
	if isBool(t) {
		switch op {
		case token.AND, token.LAND:
			return boolRes(And(a.L[0], b.L[0]))
		case token.OR, token.LOR:
			return boolRes(Or(a.L[0], b.L[0]))
		}
	}
	if isFloat(t) {
		s := a.L[0].Sort
		switch op {
		case token.ADD:
			return Val{T: tres, L: []Term{Op("fp.add RNE", s, a.L[0], b.L[0])}}
		case token.SUB:
			return Val{T: tres, L: []Term{Op("fp.sub RNE", s, a.L[0], b.L[0])}}
		case token.MUL:
			return Val{T: tres, L: []Term{Op("fp.mul RNE", s, a.L[0], b.L[0])}}
		case token.QUO:
			return Val{T: tres, L: []Term{Op("fp.div RNE", s, a.L[0], b.L[0])}}
		case token.LSS:
			return boolRes(Op("fp.lt", SBool, a.L[0], b.L[0]))
		case token.LEQ:
			return boolRes(Op("fp.leq", SBool, a.L[0], b.L[0]))
		case token.GTR:
			return boolRes(Op("fp.gt", SBool, a.L[0], b.L[0]))
		case token.GEQ:
			return boolRes(Op("fp.geq", SBool, a.L[0], b.L[0]))
		}
	}
	if !a.L[0].Sort.IsBV() {
		panic(fmt.Sprintf("binop %s on %v (%s)", op, t, a.L[0].Sort))
	}
	signed := isSigned(t)
	s := a.L[0].Sort
	w := s.Width()
	p0, q0 := a.L[0], b.L[0]
	if op == token.SHL || op == token.SHR {
		// shift count: unsigned of any width
		qw := q0.Sort.Width()
		var big Term
		if qw > w {
			big = Op("bvuge", SBool, q0, BVLit(int64(w), qw))
			q0 = Extend(q0, w, false)
		} else {
			q0 = Extend(q0, w, false)
			big = Op("bvuge", SBool, q0, BVLit(int64(w), w))
		}
		var r Term
		if op == token.SHL {
			r = Ite(big, BVLit(0, w), Op("bvshl", s, p0, q0))
		} else if signed {
			r = Ite(big, Op("bvashr", s, p0, BVLit(int64(w-1), w)), Op("bvashr", s, p0, q0))
		} else {
			r = Ite(big, BVLit(0, w), Op("bvlshr", s, p0, q0))
		}
		return Val{T: tres, L: []Term{r}}
	}
	if q0.Sort != s {
		panic(fmt.Sprintf("binop %s width mismatch %s vs %s", op, s, q0.Sort))
	}
	pick := func(su, un string) string {
		if signed {
			return su
		}
		return un
	}
	switch op {
	case token.ADD:
		return Val{T: tres, L: []Term{Op("bvadd", s, p0, q0)}}
	case token.SUB:
		return Val{T: tres, L: []Term{Op("bvsub", s, p0, q0)}}
	case token.MUL:
		return Val{T: tres, L: []Term{x.c.Arith("bvmul", s, p0, q0)}}
	case token.QUO, token.REM:
		nz := Not(Eq(q0, BVLit(0, w)))
		if fr != nil && fr.top && x.ct != nil && x.ct.NoPanic {
			x.addObl(x.fname()+"#nopanic[div]", "nopanic", "no division by zero", x.ct.Props,
				OblPart{NegGoal: And(reach, Not(nz)), NAssume: len(x.c.Assumes), Where: x.pos(p)}, false)
		}
		x.assume(Imp(reach, nz))
		if op == token.QUO {
			return Val{T: tres, L: []Term{x.c.Arith(pick("bvsdiv", "bvudiv"), s, p0, q0)}}
		}
		return Val{T: tres, L: []Term{x.c.Arith(pick("bvsrem", "bvurem"), s, p0, q0)}}
	case token.AND:
		return Val{T: tres, L: []Term{Op("bvand", s, p0, q0)}}
	case token.OR:
		return Val{T: tres, L: []Term{Op("bvor", s, p0, q0)}}
	case token.XOR:
		return Val{T: tres, L: []Term{Op("bvxor", s, p0, q0)}}
	case token.AND_NOT:
		return Val{T: tres, L: []Term{Op("bvand", s, p0, Op("bvnot", s, q0))}}
	case token.LSS:
		return boolRes(Op(pick("bvslt", "bvult"), SBool, p0, q0))
	case token.LEQ:
		return boolRes(Op(pick("bvsle", "bvule"), SBool, p0, q0))
	case token.GTR:
		return boolRes(Op(pick("bvsgt", "bvugt"), SBool, p0, q0))
	case token.GEQ:
		return boolRes(Op(pick("bvsge", "bvuge"), SBool, p0, q0))
	}
	panic("binop " + op.String())
}

func (x *Exec) convert(v Val, from, to types.Type) Val {
	if v.C != nil {
		return x.constVal(v.C, to)
	}
	v = x.scalarize(v)
	fu, tu := from.Underlying(), to.Underlying()
	switch {
	case isInteger(fu) && isInteger(tu):
		return Val{T: to, L: []Term{Extend(v.L[0], basicSort(tu.(*types.Basic)).Width(), isSigned(fu))}}
	case isInteger(fu) && isFloat(tu):
		s := basicSort(tu.(*types.Basic))
		op := "to_fp_unsigned"
		if isSigned(fu) {
			op = "to_fp"
		}
		eb, sb := 11, 53
		if s == SF32 {
			eb, sb = 8, 24
		}
		return Val{T: to, L: []Term{{fmt.Sprintf("((_ %s %d %d) RNE %s)", op, eb, sb, v.L[0].S), s}}}
	case isFloat(fu) && isInteger(tu):
		w := basicSort(tu.(*types.Basic)).Width()
		op := "fp.to_ubv"
		if isSigned(tu) {
			op = "fp.to_sbv"
		}
		x.c.Note("float→integer conversion uses SMT %s RTZ (Go leaves out-of-range results implementation-defined)", op)
		return Val{T: to, L: []Term{{fmt.Sprintf("((_ %s %d) RTZ %s)", op, w, v.L[0].S), SBV(w)}}}
	case isFloat(fu) && isFloat(tu):
		s := basicSort(tu.(*types.Basic))
		if v.L[0].Sort == s {
			return Val{T: to, L: v.L}
		}
		eb, sb := 11, 53
		if s == SF32 {
			eb, sb = 8, 24
		}
		return Val{T: to, L: []Term{{fmt.Sprintf("((_ to_fp %d %d) RNE %s)", eb, sb, v.L[0].S), s}}}
	case isString(tu):
		if _, ok := fu.(*types.Slice); ok {
			// []byte → string: function of the content array and length
			return Val{T: to, L: []Term{x.c.App("bytes2str", SStr, v.L[0], v.L[1])}}
		}
		if isInteger(fu) {
			return Val{T: to, L: []Term{x.c.App("rune2str", SStr, Extend(v.L[0], 64, true))}}
		}
		if isString(fu) {
			return Val{T: to, L: v.L}
		}
	case isString(fu):
		if _, ok := tu.(*types.Slice); ok {
			id := x.c.App("str2bytes", SBV(64), v.L[0])
			ln := x.c.App("strlen", SBV(64), v.L[0])
			return Val{T: to, L: []Term{id, ln, ln}}
		}
	}
	if _, ok := tu.(*types.Pointer); ok {
		if len(v.L) == 1 && v.L[0].Sort == SRef {
			return Val{T: to, L: v.L}
		}
	}
	if b, ok := tu.(*types.Basic); ok && b.Kind() == types.UnsafePointer {
		return Val{T: to, L: []Term{Extend(v.L[0], 64, false)}}
	}
	x.c.Note("conversion %s → %s abstracted (fresh value)", from, to)
	return freshVal(x.c, "conv", to)
}

func (x *Exec) typeTag(t types.Type) Term {
	k := typeKey(t)
	id, ok := x.e.typeTags[k]
	if !ok {
		id = len(x.e.typeTags) + 1
		x.e.typeTags[k] = id
	}
	return BVLit(int64(id), 32)
}

func (x *Exec) makeInterface(v Val, from, to types.Type) Val {
	v = x.scalarize(x.materialize(v, from))
	tag := x.typeTag(from)
	var data Term
	switch {
	case len(v.L) == 1 && v.L[0].Sort == SRef:
		data = Extend(v.L[0], 64, false)
	case len(v.L) == 1 && v.L[0].Sort.IsBV() && v.L[0].Sort.Width() <= 64:
		data = Extend(v.L[0], 64, false)
	case len(v.L) == 0:
		data = BVLit(0, 64)
	default:
		data = x.c.App("box_"+typeKey(from), SBV(64), v.L...)
	}
	return Val{T: to, L: []Term{tag, data}}
}

func (x *Exec) unbox(data Term, t types.Type, reach Term) Val {
	sh := shape(t)
	switch {
	case len(sh) == 1 && sh[0].Sort == SRef:
		return Val{T: t, L: []Term{Extend(data, 32, false)}}
	case len(sh) == 1 && sh[0].Sort.IsBV() && sh[0].Sort.Width() <= 64:
		return Val{T: t, L: []Term{Extend(data, sh[0].Sort.Width(), false)}}
	case len(sh) == 0:
		return Val{T: t}
	}
	v := freshVal(x.c, "unbox", t)
	x.assume(Imp(reach, Eq(x.c.App("box_"+typeKey(t), SBV(64), v.L...), data)))
	return v
}

func (x *Exec) typeAssert(fr *frame, i *ssa.TypeAssert, reach Term) Val {
	iv := x.val(fr, i.X)
	var ok Term
	var res Val
	if types.IsInterface(i.AssertedType) {
		unk := x.c.App("implements_"+typeKey(i.AssertedType), SBool, iv.L[0])
		ok = And(Not(Eq(iv.L[0], BVLit(0, 32))), unk)
		res = Val{T: i.AssertedType, L: []Term{iv.L[0], iv.L[1]}}
	} else {
		ok = Eq(iv.L[0], x.typeTag(i.AssertedType))
		res = x.unbox(iv.L[1], i.AssertedType, And(reach, ok))
	}
	if i.CommaOk {
		z := zeroVal(x.c, i.AssertedType)
		out := iteVal(ok, res, z)
		out.L = append(out.L, ok)
		out.T = i.Type()
		return out
	}
	if fr.top && x.ct != nil && x.ct.NoPanic {
		x.addObl(x.fname()+"#nopanic[typeassert]", "nopanic", "type assertions succeed", x.ct.Props,
			OblPart{NegGoal: And(reach, Not(ok)), NAssume: len(x.c.Assumes), Where: x.pos(i.Pos())}, false)
	}
	x.assume(Imp(reach, ok))
	return res
}

func (x *Exec) sliceOp(fr *frame, st *State, i *ssa.Slice, reach Term) Val {
	xv := x.val(fr, i.X)
	get := func(v ssa.Value) (Term, bool) {
		if v == nil {
			return Term{}, false
		}
		t := x.materialize(x.val(fr, v), types.Typ[types.Int])
		return Extend(t.L[0], 64, true), true
	}
	lo, hasLo := get(i.Low)
	hi, hasHi := get(i.High)
	switch u := i.X.Type().Underlying().(type) {
	case *types.Basic: // string
		if !hasLo && !hasHi {
			return xv
		}
		if !hasLo {
			lo = BVLit(0, 64)
		}
		if !hasHi {
			hi = x.c.App("strlen", SBV(64), xv.L[0])
		}
		r := x.c.App("substr", SStr, xv.L[0], lo, hi)
		x.c.Assume(Eq(x.c.App("strlen", SBV(64), r), Op("bvsub", SBV(64), hi, lo)))
		return Val{T: i.Type(), L: []Term{r}}
	case *types.Slice:
		if !hasLo {
			lo = BVLit(0, 64)
		}
		if !hasHi {
			hi = xv.L[1]
		}
		id := xv.L[0]
		if hasLo {
			id = Ite(Eq(lo, BVLit(0, 64)), xv.L[0], x.c.App("subslice", SBV(64), xv.L[0], lo))
		}
		return Val{T: i.Type(), L: []Term{id, subLit(hi, lo), subLit(xv.L[2], lo)}}
	case *types.Pointer: // pointer to array
		arr := u.Elem().Underlying().(*types.Array)
		a := x.toAddr(xv)
		x.nilCheck(fr, xv, reach, i.Pos())
		n := BVLit(arr.Len(), 64)
		if !hasLo {
			lo = BVLit(0, 64)
		}
		if !hasHi {
			hi = n
		}
		// the slice aliases the array object: top-level array objects keep their
		// elements in the slice heap under arrslice(ref)
		var id Term
		if a.Kind == addrObj && a.Path == "" {
			id = x.arrSliceID(u.Elem(), a.Base)
			x.c.Assume(Not(Eq(id, BVLit(0, 64))))
		} else {
			// array embedded in another object: copy semantics lost (noted)
			id = x.freshSliceID(st)
			x.c.Note("slice of an array field: aliasing with the array not modelled")
			es := shape(arr.Elem())
			if len(es) == 1 {
				content := x.load(st, a, reach)
				if len(content.L) == 1 && content.L[0].Sort.IsArr() {
					key := sliceKey(arr.Elem(), es[0].Path)
					h := x.heapGet(st, key, SArr(SBV(64), SArr(SBV(64), es[0].Sort)))
					x.heapSet(st, key, Store(h, id, content.L[0]))
				}
			}
		}
		return Val{T: i.Type(), L: []Term{id, subLit(hi, lo), subLit(n, lo)}}
	}
	return freshVal(x.c, fr.prefix+"_slice", i.Type())
}

func (x *Exec) indexAddr(fr *frame, st *State, i *ssa.IndexAddr, reach Term) Val {
	xv := x.val(fr, i.X)
	iv := x.materialize(x.val(fr, i.Index), types.Typ[types.Int])
	idx := Extend(iv.L[0], 64, isSigned(i.Index.Type()))
	switch u := i.X.Type().Underlying().(type) {
	case *types.Slice:
		inb := And(Op("bvsle", SBool, BVLit(0, 64), idx), Op("bvslt", SBool, idx, xv.L[1]))
		if fr.top && x.ct != nil && x.ct.NoPanic {
			x.addObl(x.fname()+"#nopanic[index]", "nopanic", "indices in range", x.ct.Props,
				OblPart{NegGoal: And(reach, Not(inb)), NAssume: len(x.c.Assumes), Where: x.pos(i.Pos())}, false)
		}
		x.assume(Imp(reach, inb))
		return Val{T: i.Type(), A: &Addr{Kind: addrElem, SliceID: xv.L[0], Index: idx, ElemT: u.Elem(), FT: u.Elem()}}
	case *types.Pointer:
		arr := u.Elem().Underlying().(*types.Array)
		a := x.toAddr(xv)
		x.nilCheck(fr, xv, reach, i.Pos())
		if a.Kind == addrObj && a.Path == "" {
			// element of a top-level array object: slice heap keyed by arrslice(ref)
			id := x.arrSliceID(u.Elem(), a.Base)
			return Val{T: i.Type(), A: &Addr{Kind: addrElem, SliceID: id, Index: idx, ElemT: arr.Elem(), FT: arr.Elem()}}
		}
		if a.Kind == addrObj && len(shape(arr.Elem())) == 1 {
			return Val{T: i.Type(), A: &Addr{Kind: addrArrIdx, Base: a.Base, Obj: a.Obj, Path: a.Path, Index: idx, FT: arr.Elem()}}
		}
		x.c.Note("element address of a nested array abstracted")
		return Val{T: i.Type(), L: []Term{x.c.Fresh("elemaddr", SRef)}}
	}
	return freshVal(x.c, fr.prefix+"_ia", i.Type())
}

// ---- maps ----

func (x *Exec) mapParts(st *State, mt types.Type) (ks []Leaf, has Term, hasKey string, ok bool) {
	m := mt.Underlying().(*types.Map)
	ks = shape(m.Key())
	if len(ks) != 1 {
		return nil, Term{}, "", false
	}
	hasKey = mapKey(mt, "#has")
	has = x.heapGet(st, hasKey, SArr(SRef, SArr(ks[0].Sort, SBool)))
	return ks, has, hasKey, true
}

func (x *Exec) mapRead(st *State, mt types.Type, ref, key Term, reach Term) (Val, Term) {
	m := mt.Underlying().(*types.Map)
	ks, has, _, ok := x.mapParts(st, mt)
	if !ok {
		return freshVal(x.c, "mapval", m.Elem()), x.c.Fresh("maphas", SBool)
	}
	present := Select(Select(has, ref), key)
	// a nil map has no entries
	present = And(Not(Eq(ref, BVLit(0, 32))), present)
	vs := shape(m.Elem())
	out := Val{T: m.Elem(), L: make([]Term, len(vs))}
	for j, l := range vs {
		arr := x.heapGet(st, mapKey(mt, "v:"+l.Path), SArr(SRef, SArr(ks[0].Sort, l.Sort)))
		out.L[j] = x.c.Define("mv", Select(Select(arr, ref), key))
		if l.isRef() {
			x.c.Assume(Imp(And(reach, present), Op("bvult", SBool, out.L[j], st.ctr)))
		}
	}
	z := zeroVal(x.c, m.Elem())
	return iteVal(present, out, z), present
}

func (x *Exec) lookup(fr *frame, st *State, i *ssa.Lookup, reach Term) Val {
	xv := x.val(fr, i.X)
	if isString(i.X.Type()) {
		iv := x.materialize(x.val(fr, i.Index), types.Typ[types.Int])
		return Val{T: i.Type(), L: []Term{x.c.App("strbyte", SBV(8), xv.L[0], Extend(iv.L[0], 64, true))}}
	}
	mt := i.X.Type()
	m := mt.Underlying().(*types.Map)
	kv := x.scalarize(x.materialize(x.val(fr, i.Index), m.Key()))
	if len(kv.L) != 1 {
		r := freshVal(x.c, fr.prefix+"_lookup", i.Type())
		return r
	}
	v, present := x.mapRead(st, mt, xv.L[0], kv.L[0], reach)
	if i.CommaOk {
		out := Val{T: i.Type(), L: append(append([]Term{}, v.L...), present)}
		return out
	}
	return v
}

func (x *Exec) mapUpdate(fr *frame, st *State, i *ssa.MapUpdate, reach Term) {
	mv := x.val(fr, i.Map)
	mt := i.Map.Type()
	m := mt.Underlying().(*types.Map)
	kv := x.scalarize(x.materialize(x.val(fr, i.Key), m.Key()))
	vv := x.scalarize(x.materialize(x.val(fr, i.Value), m.Elem()))
	ks, has, hasKey, ok := x.mapParts(st, mt)
	if !ok || len(kv.L) != 1 {
		eff := newEffects()
		eff.Keys["map:"+typeKey(mt)+"|"] = true
		x.havocEffects(st, eff, "mapupd")
		return
	}
	ref := mv.L[0]
	x.heapSet(st, hasKey, Store(has, ref, Store(Select(has, ref), kv.L[0], TTrue)))
	for j, l := range shape(m.Elem()) {
		k := mapKey(mt, "v:"+l.Path)
		arr := x.heapGet(st, k, SArr(SRef, SArr(ks[0].Sort, l.Sort)))
		x.heapSet(st, k, Store(arr, ref, Store(Select(arr, ref), kv.L[0], vv.L[j])))
	}
}

func (x *Exec) mapDelete(st *State, mt types.Type, ref, key Term) {
	_, has, hasKey, ok := x.mapParts(st, mt)
	if !ok {
		eff := newEffects()
		eff.Keys["map:"+typeKey(mt)+"|"] = true
		x.havocEffects(st, eff, "mapdel")
		return
	}
	x.heapSet(st, hasKey, Store(has, ref, Store(Select(has, ref), key, TFalse)))
}

func (x *Exec) next(fr *frame, st *State, i *ssa.Next, reach Term) Val {
	out := freshVal(x.c, fr.prefix+"_next", i.Type())
	if i.IsString {
		return out
	}
	rng, ok := i.Iter.(*ssa.Range)
	if !ok {
		return out
	}
	mv, ok := x.rangeOf[rng]
	if !ok {
		return out
	}
	mt := rng.X.Type()
	m, ok := mt.Underlying().(*types.Map)
	if !ok {
		return out
	}
	// out = (ok bool, k K, v V); ok ⇒ k ∈ dom(m) ∧ v == m[k]
	tp := i.Type().(*types.Tuple)
	klo, khi := tupleFieldRange(tp, 1)
	vlo, vhi := tupleFieldRange(tp, 2)
	okT := out.L[0]
	if khi-klo == 1 && len(shape(m.Key())) == 1 {
		v, present := x.mapRead(st, mt, mv.L[0], out.L[klo], reach)
		x.c.Assume(Imp(And(reach, okT), present))
		if vhi-vlo == len(v.L) {
			for j := range v.L {
				x.c.Assume(Imp(And(reach, okT), Eq(out.L[vlo+j], v.L[j])))
			}
		}
		// ghost set of visited keys: a key is delivered at most once, and when the
		// iteration ends every key of the map has been delivered (instantiated for
		// the contract's universally quantified constants)
		if vis, ok := x.visited[rng]; ok {
			k := out.L[klo]
			x.c.Assume(Imp(And(reach, okT), Not(Select(vis, k))))
			for _, fv := range x.forallVals {
				if len(fv.L) == 1 && fv.L[0].Sort == k.Sort {
					_, pres := x.mapRead(st, mt, mv.L[0], fv.L[0], reach)
					x.c.Assume(Imp(And(reach, Not(okT), pres), Select(vis, fv.L[0])))
				}
			}
			x.visited[rng] = x.c.Define("visited", Ite(okT, Store(vis, k, TTrue), vis))
		}
	}
	return out
}

// subLit: a - b on 64-bit terms, folded when both are literals or b is zero.
func subLit(a, b Term) Term {
	if bv, ok := bvLitValue(b); ok {
		if bv == 0 {
			return a
		}
		if av, ok := bvLitValue(a); ok && av >= bv {
			return BVLit(av-bv, 64)
		}
	}
	return Op("bvsub", SBV(64), a, b)
}

func (x *Exec) noSendProps() []string {
	if len(x.ct.NoSendProps) > 0 {
		return x.ct.NoSendProps
	}
	return x.ct.Props
}
