package main

// Counterexample extraction: after a `sat` verdict the winning query is re-run
// with (get-value …) over the terms of interest (inputs, reached path, results).

import (
	"fmt"
	"math/big"
	"os"
	"path/filepath"
	"sort"
	"strings"
)

type CexTerm struct {
	Name string
	T    Term
}

// cexScript appends value queries to a single-part script.
func cexScript(c *Ctx, p OblPart, terms []CexTerm) string {
	var extra []Term
	for _, t := range terms {
		if !t.T.Sort.IsArr() && t.T.S != "" {
			extra = append(extra, t.T)
		}
	}
	base := c.Script(p.NAssume, p.NegGoal, false, extra...)
	base = strings.Replace(base, "(set-logic ALL)\n", "(set-option :produce-models true)\n(set-logic ALL)\n", 1)
	var b strings.Builder
	b.WriteString(strings.TrimSuffix(base, "(check-sat)\n"))
	var names []string
	for i, t := range terms {
		if t.T.Sort.IsArr() || t.T.S == "" {
			continue
		}
		n := fmt.Sprintf("cex!%d", i)
		fmt.Fprintf(&b, "(define-fun %s () %s %s)\n", n, t.T.Sort, t.T.S)
		names = append(names, n)
	}
	b.WriteString("(check-sat)\n")
	if len(names) > 0 {
		fmt.Fprintf(&b, "(get-value (%s))\n", strings.Join(names, " "))
	}
	return b.String()
}

// parseValues reads "((cex!0 #x01) (cex!1 true) …)" from solver output.
func parseValues(out string) map[string]string {
	m := map[string]string{}
	i := strings.Index(out, "((")
	if i < 0 {
		return m
	}
	s := out[i:]
	// tokenise at depth 1 pairs
	depth := 0
	start := -1
	for k := 0; k < len(s); k++ {
		switch s[k] {
		case '(':
			depth++
			if depth == 2 {
				start = k + 1
			}
		case ')':
			if depth == 2 && start >= 0 {
				pair := strings.TrimSpace(s[start:k])
				if sp := strings.IndexAny(pair, " \t\n"); sp > 0 {
					m[pair[:sp]] = strings.TrimSpace(pair[sp+1:])
				}
				start = -1
			}
			depth--
			if depth == 0 {
				return m
			}
		}
	}
	return m
}

// smtValueToBig decodes #x.. / #b.. / (_ bvN w) literals.
func smtValueToBig(v string) (*big.Int, bool) {
	v = strings.TrimSpace(v)
	switch {
	case strings.HasPrefix(v, "#x"):
		n, ok := new(big.Int).SetString(v[2:], 16)
		return n, ok
	case strings.HasPrefix(v, "#b"):
		n, ok := new(big.Int).SetString(v[2:], 2)
		return n, ok
	case strings.HasPrefix(v, "(_ bv"):
		f := strings.Fields(strings.Trim(v, "()"))
		if len(f) >= 2 {
			n, ok := new(big.Int).SetString(strings.TrimPrefix(f[1], "bv"), 10)
			return n, ok
		}
	}
	return nil, false
}

// extractCex runs the value query with every solver until one answers sat.
func extractCex(o *Oblig, dir string, timeoutSec int) map[string]string {
	if o.FailedPart >= len(o.Parts) {
		return nil
	}
	p := o.Parts[o.FailedPart]
	if len(p.Cex) == 0 {
		return nil
	}
	script := cexScript(o.Ctx, p, p.Cex)
	r := solveScript(dir, o.Name+"_cex", script, 1, timeoutSec, false)
	if len(r.Verdicts) != 1 || r.Verdicts[0] != "sat" {
		return nil
	}
	raw := parseValues(r.Output)
	out := map[string]string{}
	for i, t := range p.Cex {
		if v, ok := raw[fmt.Sprintf("cex!%d", i)]; ok {
			out[t.Name] = v
		}
	}
	return out
}

func formatCex(o *Oblig, vals map[string]string) string {
	var ks []string
	for k := range vals {
		ks = append(ks, k)
	}
	sort.Strings(ks)
	var b strings.Builder
	for _, k := range ks {
		v := vals[k]
		if n, ok := smtValueToBig(v); ok {
			fmt.Fprintf(&b, "  %-50s = %s (%s)\n", k, n.String(), v)
		} else {
			fmt.Fprintf(&b, "  %-50s = %s\n", k, v)
		}
	}
	return b.String()
}

func writeFileIn(dir, name, content string) string {
	os.MkdirAll(dir, 0o755)
	p := filepath.Join(dir, name)
	os.WriteFile(p, []byte(content), 0o644)
	return p
}
