package main

import (
	"fmt"
	"strings"
	"sync"
)

// dischargeTables decides the (many, tiny, ground) table obligations: all
// obligations over one table context go into one incremental script, one
// check-sat each, so a table costs one process per solver instead of hundreds.
func dischargeTables(obls []*Oblig, dir string, timeoutSec int, all bool) {
	groups := map[*Ctx][]*Oblig{}
	var order []*Ctx
	for _, o := range obls {
		if o.Kind != "table" || len(o.Parts) == 0 {
			continue
		}
		if _, ok := groups[o.Ctx]; !ok {
			order = append(order, o.Ctx)
		}
		groups[o.Ctx] = append(groups[o.Ctx], o)
	}
	var wg sync.WaitGroup
	for gi, c := range order {
		wg.Add(1)
		go func(gi int, c *Ctx, os []*Oblig) {
			defer wg.Done()
			var b strings.Builder
			b.WriteString("(set-logic ALL)\n")
			for _, l := range c.lines {
				b.WriteString(l)
				b.WriteByte('\n')
			}
			for _, o := range os {
				fmt.Fprintf(&b, "(push 1)\n(assert %s)\n(check-sat)\n(pop 1)\n", o.Parts[0].NegGoal.S)
			}
			old := solvers
			_ = old
			r := solveScriptIncremental(dir, fmt.Sprintf("table_group_%d", gi), b.String(), len(os), timeoutSec, all)
			for i, o := range os {
				v := "unknown"
				if i < len(r.Verdicts) {
					v = r.Verdicts[i]
				}
				o.Status = v
				o.Solver = r.Solver
				o.Ms = r.Ms
				o.FailedPart = 0
				if v != "unsat" {
					o.Output = fmt.Sprintf("table obligation %q: solver verdict %s (the negated rule is satisfiable for the table evaluated from %s)", o.Name, v, o.Func)
				}
			}
		}(gi, c, groups[c])
	}
	wg.Wait()
}

// solveScriptIncremental is solveScript with cvc5's --incremental flag.
func solveScriptIncremental(dir, name, script string, n, timeoutSec int, all bool) solveResult {
	saved := solvers
	inc := make([]solverSpec, len(saved))
	for i, s := range saved {
		s := s
		inc[i] = solverSpec{Name: s.Name, Args: func(f string, t int) []string {
			a := s.Args(f, t)
			if a[0] == "cvc5" {
				a = append([]string{a[0], "--incremental"}, a[1:]...)
			}
			return a
		}}
	}
	return solveScriptWith(inc, dir, name, script, n, timeoutSec, all)
}
