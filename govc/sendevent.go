package main

import (
	"strings"

	"golang.org/x/tools/go/ssa"
)

// applyOnlyAccepted selects the model of SendEvent used by the message-context
// units: if a call to getNextState dominates the ApplyToSwapData invoke in
// (*SwapStateMachine).SendEvent, a message is applied only for events the
// current state accepts; otherwise (the conservative model) every message type
// may be applied in every state. The claim "rejected before applied" itself is
// an obligation on SendEvent (call-site precondition of ApplyToSwapData).
func (e *Engine) applyOnlyAccepted() bool {
	if e.applyModel != 0 {
		return e.applyModel == 1
	}
	e.applyModel = 2
	for key, fn := range e.funcs {
		if !strings.HasSuffix(key, "::(*SwapStateMachine).SendEvent") {
			continue
		}
		var applyBlock, checkBlock *ssa.BasicBlock
		checkIdx, applyIdx := -1, -1
		for _, b := range fn.Blocks {
			for i, ins := range b.Instrs {
				call, ok := ins.(*ssa.Call)
				if !ok {
					continue
				}
				if call.Call.IsInvoke() && call.Call.Method.Name() == "ApplyToSwapData" && applyBlock == nil {
					applyBlock, applyIdx = b, i
				}
				if c := call.Call.StaticCallee(); c != nil && c.Name() == "getNextState" && checkBlock == nil {
					checkBlock, checkIdx = b, i
				}
			}
		}
		if applyBlock != nil && checkBlock != nil {
			if checkBlock == applyBlock && checkIdx < applyIdx || checkBlock != applyBlock && checkBlock.Dominates(applyBlock) {
				e.applyModel = 1
			}
		}
	}
	return e.applyModel == 1
}
