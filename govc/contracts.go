package main

// Contract files: /repo/<pkg>/zz_verif_contracts.go, build tag "verif",
// comment-only. Lines start with "//@ ".

import (
	"bufio"
	"fmt"
	"go/ast"
	"go/parser"
	"os"
	"path/filepath"
	"regexp"
	"strconv"
	"strings"
)

type Clause struct {
	Kind  string // requires, ensures, invariant, lemma
	Label string
	Props []string
	Scope []string // `@in:name`: the clause applies only in top-level functions with a parameter of that name
	Trusted bool  // `@trusted`: assumed at call sites, not checked against the body (listed as an assumption)
	Text  string
	Expr  ast.Expr
	File  string
	Line  int
}

type Contract struct {
	PkgPath string
	ExternPkg string // `extern` contracts: package name as written
	TypePkg string // extern contracts: package path of the interface/struct type (default: PkgPath)
	Name    string // ssa RelString, e.g. "(*SwapData).getTimelockPolicy"; for interfaces "Iface.Method"
	IsIface bool
	Props   []string
	Req     []*Clause
	Ens     []*Clause
	Loops   map[int][]*Clause
	LoopSets map[int][]*Clause // ghost assignments at the loop head
	LoopInst map[int][]*Clause // extra instances of forall constants for the assumed invariants
	Fresh bool // slice results are freshly allocated (extern contracts of allocating library functions)
	Assigns []ast.Expr
	HasAssigns bool
	Inline, Trusted, NoPanic, Pure, Havoc bool
	NoSendProps []string
	NoSend bool // no reachable blocking channel send in the function's own code (followed callees included)
	PureValue bool
	PureRef   bool
	MustCall []*Clause // "mustcall" style clauses are expressed through ghosts; reserved
	Forall   []GhostDecl
	checkedUsable, unusable bool
	Sets     []*Clause // `sets ghost.X = expr`: ghost assignment at the function's exit (Label = X)
	File    string
	Line    int
}

type GhostDecl struct {
	Name string
	Type string // bool, int, uint32, uint64, int64, string
}

type Lemma struct {
	Name   string
	Props  []string
	Vars   []GhostDecl
	Clause *Clause
}

type ContractSet struct {
	Funcs   map[string]*Contract // key pkgpath + "::" + name
	Ghosts  map[string][]GhostDecl // per package
	Lemmas  []*Lemma
	Tables  []*TableRule
	Files   []string
	StateInvs  []*StateInv
	EventHavoc map[string][]string
	StateUnits []*StateUnitDecl
	CtxScope   map[string][]string
	Durables   []*Durable
	Encaps     []*EncapDecl
	Defines    map[string]*Define // spec macros, by name (all packages)
	Secrets    []*SecretDecl      // information-flow labels (C23)
}

// SecretDecl: `secret T.F ...` (the field holds a secret), `secretresult F ...`
// (the function's results are secret), `nosecret T.F ...` (no value that depends
// on a secret may be stored into the field: it leaves the node or is persisted
// for sending).
type SecretDecl struct {
	PkgPath string
	Kind    string // secret | secretresult | nosecret
	Names   []string
	Props   []string
	File    string
	Line    int
}

// Define: a spec-level macro `define name(p1, p2) expr`; a call in a spec is
// the body with the arguments bound to the parameters (pure abbreviation).
type Define struct {
	PkgPath string
	Name    string
	Params  []string
	Clause  *Clause
}

// StateInv: a state-indexed data invariant of one table (FSM layer). An
// entry invariant holds whenever the state's action starts; a rest invariant
// holds whenever the machine rests in the state (action returned NoOp/OnRetry).
type StateInv struct {
	PkgPath string
	Table   string
	Target  string // state constant or set name
	Rest    bool
	Step    bool // two-state invariant (may use old()): holds across every action and every applied message at these states
	Clause  *Clause
}

// Durable: ghost mirror of persisted data (see "durable" keyword).
type Durable struct {
	PkgPath string
	Ghost   string
	Clause  *Clause
}

type StateUnitDecl struct {
	PkgPath string
	Table   string
	Props   []string
	File    string
	Line    int
}

// TableRule: an FSM-layer obligation family, see fsm.go.
type TableRule struct {
	PkgPath string
	Props   []string
	Name    string
	Kind    string
	Args    []string
	File    string
	Line    int
}

var reLabel = regexp.MustCompile(`^([A-Za-z_][A-Za-z0-9_\-]*):\s+`)

func loadContracts(repo string, pkgDirs map[string]string) (*ContractSet, error) {
	cs := &ContractSet{Funcs: map[string]*Contract{}, Ghosts: map[string][]GhostDecl{}}
	for pkgPath, dir := range pkgDirs {
		matches, _ := filepath.Glob(filepath.Join(dir, "zz_verif_contracts*.go"))
		for _, f := range matches {
			if err := cs.parseFile(pkgPath, f); err != nil {
				return nil, err
			}
			cs.Files = append(cs.Files, f)
		}
	}
	return cs, nil
}

func (cs *ContractSet) parseFile(pkgPath, file string) error {
	fh, err := os.Open(file)
	if err != nil {
		return err
	}
	defer fh.Close()
	sc := bufio.NewScanner(fh)
	sc.Buffer(make([]byte, 1<<20), 1<<20)
	var cur *Contract
	var lastClause *Clause
	var curLemma *Lemma
	lineNo := 0
	finish := func(cl *Clause) error {
		if cl == nil {
			return nil
		}
		e, err := parseSpecExpr(cl.Text)
		if err != nil {
			return fmt.Errorf("%s:%d: %v in %q", cl.File, cl.Line, err, cl.Text)
		}
		cl.Expr = e
		return nil
	}
	var pending []*Clause
	for sc.Scan() {
		lineNo++
		line := sc.Text()
		if !strings.HasPrefix(strings.TrimSpace(line), "//@") {
			continue
		}
		body := strings.TrimPrefix(strings.TrimSpace(line), "//@")
		if strings.HasPrefix(body, "  ") || strings.HasPrefix(body, "\t") {
			// continuation
			if lastClause != nil {
				lastClause.Text += " " + strings.TrimSpace(body)
			}
			continue
		}
		body = strings.TrimSpace(body)
		if body == "" {
			continue
		}
		kw, rest := body, ""
		if i := strings.IndexAny(body, " \t"); i >= 0 {
			kw, rest = body[:i], strings.TrimSpace(body[i+1:])
		}
		lastClause = nil
		mk := func(kind string) *Clause {
			cl := &Clause{Kind: kind, File: file, Line: lineNo}
			// optional @C01,C02 token
			for strings.HasPrefix(rest, "@") {
				tok := rest
				if i := strings.IndexAny(rest, " \t"); i >= 0 {
					tok, rest = rest[:i], strings.TrimSpace(rest[i+1:])
				} else {
					rest = ""
				}
				for _, p := range strings.Split(strings.TrimPrefix(tok, "@"), ",") {
					if p == "trusted" {
						cl.Trusted = true
					} else if strings.HasPrefix(p, "in:") {
						cl.Scope = append(cl.Scope, strings.TrimPrefix(p, "in:"))
					} else if p != "" {
						cl.Props = append(cl.Props, p)
					}
				}
			}
			if m := reLabel.FindStringSubmatch(rest); m != nil {
				cl.Label = m[1]
				rest = rest[len(m[0]):]
			}
			cl.Text = rest
			pending = append(pending, cl)
			lastClause = cl
			return cl
		}
		switch kw {
		case "func", "interface", "callback":
			// callback <Type>.<field>: contract of the function value stored in that struct
			// field (assumed for the callee, proved as a precondition at every call through the field)
			cur = &Contract{PkgPath: pkgPath, Name: rest, IsIface: kw != "func", Loops: map[int][]*Clause{}, File: file, Line: lineNo}
			key := pkgPath + "::" + rest
			if _, dup := cs.Funcs[key]; dup {
				return fmt.Errorf("%s:%d: duplicate contract for %s", file, lineNo, rest)
			}
			cs.Funcs[key] = cur
			curLemma = nil
		case "extern":
			// extern <pkgname> <RelName>: ASSUMED contract of a function or method of another
			// package (a dependency); never verified, listed as trusted. Clauses are
			// evaluated in the declaring package's scope.
			fs := strings.SplitN(rest, " ", 2)
			if len(fs) != 2 {
				return fmt.Errorf("%s:%d: extern <pkgname> <function>", file, lineNo)
			}
			cur = &Contract{PkgPath: pkgPath, Name: strings.TrimSpace(fs[1]), Trusted: true, ExternPkg: fs[0], Loops: map[int][]*Clause{}, File: file, Line: lineNo}
			key := "extern:" + fs[0] + "::" + cur.Name
			if _, dup := cs.Funcs[key]; dup {
				return fmt.Errorf("%s:%d: duplicate contract for %s", file, lineNo, rest)
			}
			cs.Funcs[key] = cur
			curLemma = nil
		case "property":
			ps := strings.Fields(rest)
			if curLemma != nil {
				curLemma.Props = append(curLemma.Props, ps...)
			} else if cur != nil {
				cur.Props = append(cur.Props, ps...)
			}
		case "requires":
			if cur == nil {
				return fmt.Errorf("%s:%d: requires outside func", file, lineNo)
			}
			cur.Req = append(cur.Req, mk("requires"))
		case "typeinv":
			// a representation invariant of the receiver/parameters: assumed inside the
			// body like a precondition, NOT checked at call sites (recorded as an assumption)
			if cur == nil {
				return fmt.Errorf("%s:%d: typeinv outside func", file, lineNo)
			}
			cur.Req = append(cur.Req, mk("typeinv"))
		case "ensures":
			if cur == nil {
				return fmt.Errorf("%s:%d: ensures outside func", file, lineNo)
			}
			cur.Ens = append(cur.Ens, mk("ensures"))
		case "sets":
			// sets ghost.X = <expr>: ghost code executed when the function returns (expr is
			// evaluated in the post-state and may use result/old()); no obligation by itself
			if cur == nil {
				return fmt.Errorf("%s:%d: sets outside func", file, lineNo)
			}
			eq := strings.Index(rest, "=")
			if !strings.HasPrefix(rest, "ghost.") || eq < 0 {
				return fmt.Errorf("%s:%d: sets ghost.<name> = <expr>", file, lineNo)
			}
			g := strings.TrimSpace(rest[len("ghost."):eq])
			rest = strings.TrimSpace(rest[eq+1:])
			cl := mk("sets")
			cl.Label = g
			cur.Sets = append(cur.Sets, cl)
		case "refute":
			// a postcondition that is only searched for counterexamples (the proof is
			// beyond the solvers): sat = violation, unknown = bounded search exhausted
			if cur == nil {
				return fmt.Errorf("%s:%d: refute outside func", file, lineNo)
			}
			cur.Ens = append(cur.Ens, mk("refute"))
		case "durable":
			// durable <ghost> <expr>: a ghost mirror of persisted swap data; it is
			// re-assigned exactly where SendEvent/Recover call UpdateData
			fs := strings.SplitN(rest, " ", 2)
			if len(fs) < 2 {
				return fmt.Errorf("%s:%d: durable <ghost> <expr>", file, lineNo)
			}
			rest = strings.TrimSpace(fs[1])
			cl := mk("durable")
			cs.Durables = append(cs.Durables, &Durable{PkgPath: pkgPath, Ghost: fs[0], Clause: cl})
		case "entryinv", "restinv", "stepinv":
			// entryinv|restinv|stepinv <table> <State|Set> [@props] [label:] <expr>
			fs := strings.SplitN(rest, " ", 3)
			if len(fs) < 3 {
				return fmt.Errorf("%s:%d: %s <table> <state|set> <expr>", file, lineNo, kw)
			}
			rest = strings.TrimSpace(fs[2])
			cl := mk(kw)
			cs.StateInvs = append(cs.StateInvs, &StateInv{PkgPath: pkgPath, Table: fs[0], Target: fs[1], Rest: kw == "restinv", Step: kw == "stepinv", Clause: cl})
		case "event":
			// event <Event> havoc <field> ...   (fields of SwapData rewritten by the service before the event is sent)
			fs := strings.Fields(rest)
			if len(fs) < 3 || fs[1] != "havoc" {
				return fmt.Errorf("%s:%d: event <Event> havoc <field>...", file, lineNo)
			}
			if cs.EventHavoc == nil {
				cs.EventHavoc = map[string][]string{}
			}
			cs.EventHavoc[fs[0]] = append(cs.EventHavoc[fs[0]], fs[2:]...)
		case "forall":
			// forall <name> <type>: a universally quantified constant of the contract
			fs := strings.Fields(rest)
			if cur == nil || len(fs) != 2 {
				return fmt.Errorf("%s:%d: forall <name> <type> (inside func)", file, lineNo)
			}
			cur.Forall = append(cur.Forall, GhostDecl{fs[0], fs[1]})
		case "ctxscope":
			// ctxscope <MessageType> <State...>: the message type is only ever applied to machines in these states
			fs := strings.Fields(rest)
			if len(fs) < 2 {
				return fmt.Errorf("%s:%d: ctxscope <MessageType> <State...>", file, lineNo)
			}
			if cs.CtxScope == nil {
				cs.CtxScope = map[string][]string{}
			}
			cs.CtxScope[fs[0]] = append(cs.CtxScope[fs[0]], fs[1:]...)
		case "encapsulated":
			// encapsulated [@props] Type.field writers f1 f2 ...
			d := &EncapDecl{PkgPath: pkgPath, File: file, Line: lineNo}
			fs := strings.Fields(rest)
			for len(fs) > 0 && strings.HasPrefix(fs[0], "@") {
				d.Props = append(d.Props, strings.Split(fs[0][1:], ",")...)
				fs = fs[1:]
			}
			if len(fs) < 3 || fs[1] != "writers" || !strings.Contains(fs[0], ".") {
				return fmt.Errorf("%s:%d: encapsulated [@props] Type.field writers f...", file, lineNo)
			}
			tf := strings.SplitN(fs[0], ".", 2)
			d.TypeName, d.Field, d.Writers = tf[0], tf[1], fs[2:]
			cs.Encaps = append(cs.Encaps, d)
		case "define":
			// define name(p1, p2, ...) expr
			open := strings.Index(rest, "(")
			closeP := strings.Index(rest, ")")
			if open <= 0 || closeP < open {
				return fmt.Errorf("%s:%d: define name(params) expr", file, lineNo)
			}
			d := &Define{PkgPath: pkgPath, Name: strings.TrimSpace(rest[:open])}
			for _, p := range strings.Split(rest[open+1:closeP], ",") {
				if p = strings.TrimSpace(p); p != "" {
					d.Params = append(d.Params, p)
				}
			}
			rest = strings.TrimSpace(rest[closeP+1:])
			d.Clause = mk("define")
			if cs.Defines == nil {
				cs.Defines = map[string]*Define{}
			}
			if _, dup := cs.Defines[d.Name]; dup {
				return fmt.Errorf("%s:%d: duplicate define %s", file, lineNo, d.Name)
			}
			cs.Defines[d.Name] = d
		case "secret", "secretresult", "nosecret", "onlysecret":
			d := &SecretDecl{PkgPath: pkgPath, Kind: kw, File: file, Line: lineNo}
			for _, f := range strings.Fields(rest) {
				if strings.HasPrefix(f, "@") {
					d.Props = append(d.Props, strings.Split(f[1:], ",")...)
				} else {
					d.Names = append(d.Names, f)
				}
			}
			cs.Secrets = append(cs.Secrets, d)
		case "stateunits":
			// stateunits <table> <props...> : properties whose check runs the per-state units of that table
			fs := strings.Fields(rest)
			if len(fs) < 2 {
				return fmt.Errorf("%s:%d: stateunits <table> <props...>", file, lineNo)
			}
			cs.StateUnits = append(cs.StateUnits, &StateUnitDecl{PkgPath: pkgPath, Table: fs[0], Props: fs[1:], File: file, Line: lineNo})
		case "loop":
			// loop <n> invariant <expr>
			fs := strings.SplitN(rest, " ", 3)
			if len(fs) < 3 || (fs[1] != "invariant" && fs[1] != "sets" && fs[1] != "instance") {
				return fmt.Errorf("%s:%d: expected 'loop <n> invariant <expr>' | 'loop <n> sets ghost.X = <expr>' | 'loop <n> instance <name> = <expr>'", file, lineNo)
			}
			n, err := strconv.Atoi(fs[0])
			if err != nil {
				return fmt.Errorf("%s:%d: bad loop ordinal", file, lineNo)
			}
			rest = fs[2]
			switch fs[1] {
			case "invariant":
				cur.Loops[n] = append(cur.Loops[n], mk("invariant"))
			case "sets":
				// ghost code at the loop head (start of every iteration and at the exit test)
				eq := strings.Index(rest, "=")
				if !strings.HasPrefix(rest, "ghost.") || eq < 0 {
					return fmt.Errorf("%s:%d: loop <n> sets ghost.<name> = <expr>", file, lineNo)
				}
				g := strings.TrimSpace(rest[len("ghost."):eq])
				rest = strings.TrimSpace(rest[eq+1:])
				cl := mk("sets")
				cl.Label = g
				if cur.LoopSets == nil {
					cur.LoopSets = map[int][]*Clause{}
				}
				cur.LoopSets[n] = append(cur.LoopSets[n], cl)
			case "instance":
				// the loop's invariants (proved for arbitrary values of the contract's forall
				// constants) are also assumed at the head with <name> := <expr>
				eq := strings.Index(rest, "=")
				if eq < 0 {
					return fmt.Errorf("%s:%d: loop <n> instance <name> = <expr>", file, lineNo)
				}
				nm := strings.TrimSpace(rest[:eq])
				rest = strings.TrimSpace(rest[eq+1:])
				cl := mk("instance")
				cl.Label = nm
				if cur.LoopInst == nil {
					cur.LoopInst = map[int][]*Clause{}
				}
				cur.LoopInst[n] = append(cur.LoopInst[n], cl)
			}
		case "assigns":
			cur.HasAssigns = true
			if rest != "nothing" {
				for _, a := range splitTop(rest, ',') {
					e, err := parser.ParseExpr(strings.TrimSpace(a))
					if err != nil {
						return fmt.Errorf("%s:%d: assigns: %v", file, lineNo, err)
					}
					cur.Assigns = append(cur.Assigns, e)
				}
			}
		case "inline":
			cur.Inline = true
		case "trusted":
			cur.Trusted = true
		case "nopanic":
			cur.NoPanic = true
		case "fresh":
			cur.Fresh = true
		case "debugnames":
			// package-level switch, read by the loader
		case "nosend":
			// nosend [@Cxx,...]: no reachable blocking channel send
			cur.NoSend = true
			for _, f := range strings.Fields(rest) {
				for _, p := range strings.Split(strings.TrimPrefix(f, "@"), ",") {
					if p != "" {
						cur.NoSendProps = append(cur.NoSendProps, p)
					}
				}
			}
		case "pure":
			cur.Pure = true
		case "pureref":
			// like pure, for methods of immutable objects: a function of the argument
			// values (references included) only, not of the heap (ASSUMED: the objects
			// reachable from the arguments are never modified after construction)
			cur.Pure = true
			cur.PureRef = true
		case "purevalue":
			// like pure, and pointer parameters are taken by the value they point to
			cur.Pure = true
			cur.PureValue = true
		case "havoc":
			cur.Havoc = true
		case "ghost":
			fs := strings.Fields(rest)
			if len(fs) != 2 {
				return fmt.Errorf("%s:%d: ghost <name> <type>", file, lineNo)
			}
			// ghosts are always package-level (lemma variables use "var")
			curLemma = nil
			cs.Ghosts[pkgPath] = append(cs.Ghosts[pkgPath], GhostDecl{fs[0], fs[1]})
		case "lemma":
			curLemma = &Lemma{Name: rest}
			lemmaPkg[curLemma] = pkgPath
			cs.Lemmas = append(cs.Lemmas, curLemma)
			cur = nil
		case "var":
			fs := strings.Fields(rest)
			if curLemma == nil || len(fs) != 2 {
				return fmt.Errorf("%s:%d: var <name> <type> only inside lemma", file, lineNo)
			}
			curLemma.Vars = append(curLemma.Vars, GhostDecl{fs[0], fs[1]})
		case "assume":
			if curLemma == nil {
				return fmt.Errorf("%s:%d: assume only inside lemma", file, lineNo)
			}
			cl := mk("assume")
			_ = cl
			if curLemma.Clause == nil {
				curLemma.Clause = &Clause{Kind: "lemma", File: file, Line: lineNo}
			}
			curLemma.Clause.Props = append(curLemma.Clause.Props, "") // placeholder
			lemmaAssumes[curLemma] = append(lemmaAssumes[curLemma], cl)
		case "show":
			if curLemma == nil {
				return fmt.Errorf("%s:%d: show only inside lemma", file, lineNo)
			}
			cl := mk("lemma")
			lemmaShows[curLemma] = append(lemmaShows[curLemma], cl)
		case "table":
			// table <name> <kind> args...
			fs := strings.Fields(rest)
			if len(fs) < 2 {
				return fmt.Errorf("%s:%d: table <name> <kind> args", file, lineNo)
			}
			tr := &TableRule{PkgPath: pkgPath, Name: fs[0], Kind: fs[1], Args: fs[2:], File: file, Line: lineNo}
			// properties: tokens starting with @
			var args []string
			for _, a := range tr.Args {
				if strings.HasPrefix(a, "@") {
					tr.Props = append(tr.Props, strings.Split(a[1:], ",")...)
				} else {
					args = append(args, a)
				}
			}
			tr.Args = args
			cs.Tables = append(cs.Tables, tr)
		default:
			return fmt.Errorf("%s:%d: unknown contract keyword %q", file, lineNo, kw)
		}
	}
	for _, cl := range pending {
		if err := finish(cl); err != nil {
			return err
		}
	}
	return nil
}

var lemmaPkg = map[*Lemma]string{}
var lemmaAssumes = map[*Lemma][]*Clause{}
var lemmaShows = map[*Lemma][]*Clause{}

func splitTop(s string, sep byte) []string {
	var out []string
	depth := 0
	start := 0
	inStr := false
	for i := 0; i < len(s); i++ {
		ch := s[i]
		if inStr {
			if ch == '\\' {
				i++
			} else if ch == '"' {
				inStr = false
			}
			continue
		}
		switch ch {
		case '"':
			inStr = true
		case '(', '[', '{':
			depth++
		case ')', ']', '}':
			depth--
		default:
			if ch == sep && depth == 0 {
				out = append(out, s[start:i])
				start = i + 1
			}
		}
	}
	out = append(out, s[start:])
	return out
}

// parseSpecExpr parses the spec expression language: Go expressions extended
// with "==>" and "<==>" (lowest precedence, ==> right associative).
func parseSpecExpr(s string) (ast.Expr, error) {
	t := transformImp(s)
	return parser.ParseExpr(t)
}

// transformImp rewrites A ==> B into __imp(A, B) and A <==> B into __iff(A, B).
func transformImp(s string) string {
	// find top-level operators
	type hit struct {
		pos int
		op  string
	}
	var hits []hit
	depth := 0
	inStr := false
	for i := 0; i < len(s); i++ {
		ch := s[i]
		if inStr {
			if ch == '\\' {
				i++
			} else if ch == '"' {
				inStr = false
			}
			continue
		}
		switch ch {
		case '"':
			inStr = true
		case '(', '[', '{':
			depth++
		case ')', ']', '}':
			depth--
		}
		if depth == 0 {
			if strings.HasPrefix(s[i:], "<==>") {
				hits = append(hits, hit{i, "<==>"})
				i += 3
			} else if strings.HasPrefix(s[i:], "==>") {
				hits = append(hits, hit{i, "==>"})
				i += 2
			}
		}
	}
	// lowest precedence: <==>
	for _, h := range hits {
		if h.op == "<==>" {
			return "__iff(" + transformImp(s[:h.pos]) + ", " + transformImp(s[h.pos+4:]) + ")"
		}
	}
	if len(hits) > 0 {
		h := hits[0] // right associative: split at the first
		return "__imp(" + transformImp(s[:h.pos]) + ", " + transformImp(s[h.pos+3:]) + ")"
	}
	// no top-level operator: recurse into parenthesised groups
	var b strings.Builder
	depth = 0
	inStr = false
	start := -1
	for i := 0; i < len(s); i++ {
		ch := s[i]
		if inStr {
			if depth == 0 {
				b.WriteByte(ch)
			}
			if ch == '\\' && i+1 < len(s) {
				i++
				if depth == 0 {
					b.WriteByte(s[i])
				}
			} else if ch == '"' {
				inStr = false
			}
			continue
		}
		switch ch {
		case '"':
			inStr = true
			if depth == 0 {
				b.WriteByte(ch)
			}
		case '(', '[', '{':
			if depth == 0 {
				b.WriteByte(ch)
				start = i + 1
			}
			depth++
		case ')', ']', '}':
			depth--
			if depth == 0 {
				inner := s[start:i]
				if strings.Contains(inner, "==>") {
					// transform each top-level comma separated part
					parts := splitTop(inner, ',')
					for j, p := range parts {
						if j > 0 {
							b.WriteByte(',')
						}
						b.WriteString(transformImp(p))
					}
				} else {
					b.WriteString(inner)
				}
				b.WriteByte(ch)
			}
		default:
			if depth == 0 {
				b.WriteByte(ch)
			}
		}
	}
	return b.String()
}
