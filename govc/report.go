package main

import (
	"bufio"
	"encoding/json"
	"fmt"
	"os"
	"path/filepath"
	"sort"
	"strconv"
	"strings"
	"time"
)

type FuncInfo struct {
	Name      string   `json:"name"`
	File      string   `json:"file"`
	Blocks    int      `json:"ssa_blocks"`
	Inlined   []string `json:"inlined_callees,omitempty"`
	Havocked  []string `json:"havocked_callees,omitempty"`
	Contracts []string `json:"callee_contracts_used,omitempty"`
}

type Run struct {
	Prop, Tier, Repo, Verif string
	Pin      bool
	NoReplay bool
	Verbose  bool
	Out      string
	Start    time.Time
	LoadSecs float64
	eng      *Engine
	Obls     []*Oblig
	Covers   []*Oblig // vacuity checks: must be SAT
	SiteCovers []*Oblig // per contract application: continuation reachable (diagnostic)
	Funcs    []FuncInfo
	Notes    map[string]bool
	Trusted  []string
	Stale    []string
	Bounded  []string
}

func (r *Run) fatal(format string, a ...interface{}) {
	fmt.Fprintf(os.Stderr, "govc: "+format+"\n", a...)
	fmt.Printf("BROKEN property=%s %s\n", r.Prop, fmt.Sprintf(format, a...))
	os.Exit(3)
}

func (r *Run) addExec(x *Exec, prop string) {
	if r.Notes == nil {
		r.Notes = map[string]bool{}
	}
	for n := range x.c.Notes {
		r.Notes[n] = true
	}
	fi := FuncInfo{Name: x.fname(), File: x.pos(x.top.Pos()), Blocks: len(x.top.Blocks)}
	for k := range x.inlined {
		fi.Inlined = append(fi.Inlined, k)
	}
	for k := range x.havocked {
		fi.Havocked = append(fi.Havocked, k)
	}
	for k := range x.usedContracts {
		fi.Contracts = append(fi.Contracts, k)
	}
	sort.Strings(fi.Inlined)
	sort.Strings(fi.Havocked)
	sort.Strings(fi.Contracts)
	r.Funcs = append(r.Funcs, fi)
	for _, n := range x.order {
		o := x.obls[n]
		if hasProp(o.Props, prop) {
			r.Obls = append(r.Obls, o)
		}
	}
	// vacuity: the preconditions are satisfiable and some normal return is reachable
	cover := &Oblig{Name: x.fname() + "#cover[return]", Kind: "cover", Ctx: x.c, Func: x.top.String(),
		Text:  "requires are satisfiable and a normal return is reachable under all assumptions",
		Parts: []OblPart{{NegGoal: x.coverReach, NAssume: len(x.c.Assumes)}}}
	r.Covers = append(r.Covers, cover)
	for _, n := range x.ensCoverOrder {
		ec := x.ensCover[n]
		if !hasProp(ec.props, prop) {
			continue
		}
		r.Covers = append(r.Covers, &Oblig{Name: n + ".cover", Kind: "cover", Ctx: x.c, Func: x.top.String(),
			Text:  "the antecedent of this postcondition is reachable at some return: " + ec.text,
			Parts: []OblPart{{NegGoal: Or(ec.terms...), NAssume: len(x.c.Assumes)}}})
	}
	r.SiteCovers = append(r.SiteCovers, x.siteCovers...)
}

type pinned struct {
	Solver string
	Ms     int64
}

func (r *Run) expectPath() string {
	return filepath.Join(r.Verif, "expect", r.Prop+".obligations")
}

func (r *Run) loadExpect() (map[string]pinned, bool) {
	f, err := os.Open(r.expectPath())
	if err != nil {
		return nil, false
	}
	defer f.Close()
	m := map[string]pinned{}
	sc := bufio.NewScanner(f)
	for sc.Scan() {
		line := strings.TrimSpace(sc.Text())
		if line == "" || strings.HasPrefix(line, "#") {
			continue
		}
		fs := strings.Split(line, "\t")
		p := pinned{}
		if len(fs) > 1 {
			p.Solver = fs[1]
		}
		if len(fs) > 2 {
			p.Ms, _ = strconv.ParseInt(fs[2], 10, 64)
		}
		m[fs[0]] = p
	}
	return m, true
}

type KnownFinding struct {
	Property   string `json:"property"`
	Obligation string `json:"obligation"`
	Where      string `json:"where,omitempty"` // substring of the failing part's location (optional)
	What       string `json:"what"`
	Status     string `json:"status,omitempty"` // "" (open) | "fixed"
	Commit     string `json:"commit,omitempty"`
}

func (r *Run) loadKnown() []KnownFinding {
	var out []KnownFinding
	f, err := os.Open(filepath.Join(r.Verif, "known_findings.jsonl"))
	if err != nil {
		return nil
	}
	defer f.Close()
	sc := bufio.NewScanner(f)
	sc.Buffer(make([]byte, 1<<20), 1<<20)
	for sc.Scan() {
		line := strings.TrimSpace(sc.Text())
		if line == "" || strings.HasPrefix(line, "#") || strings.HasPrefix(line, "fixed:") {
			continue
		}
		var k KnownFinding
		if json.Unmarshal([]byte(line), &k) == nil && k.Status != "fixed" {
			out = append(out, k)
		}
	}
	return out
}

type oblRecord struct {
	Name   string `json:"name"`
	Kind   string `json:"kind"`
	Spec   string `json:"spec,omitempty"`
	Status string `json:"status"`
	Solver string `json:"solver,omitempty"`
	Ms     int64  `json:"ms"`
	Parts  int    `json:"paths_or_sites"`
}

func (r *Run) finish() {
	timeout := 20
	all := false
	searchTimeoutSec = 8
	if r.Tier == "thorough" {
		timeout = 120
		searchTimeoutSec = 300
		all = true
	}
	dir, _ := os.MkdirTemp("", "govc-"+r.Prop+"-")
	defer os.RemoveAll(dir)
	if len(r.Stale) > 0 {
		for _, s := range r.Stale {
			fmt.Printf("STALE %s\n", s)
		}
	}
	if len(r.Obls) == 0 && len(r.Stale) == 0 {
		r.fatal("zero obligations generated for %s (vacuous check)", r.Prop)
	}
	solveStart := time.Now()
	discharge(append(append(append([]*Oblig{}, r.Obls...), r.Covers...), r.SiteCovers...), dir, timeout, all)
	// second chance: an obligation (or reachability check) the solvers gave up on
	// within the tier's limit is asked again with four times the limit, so that a
	// loaded machine does not turn a slow proof into an alarm
	var again []*Oblig
	for _, o := range append(append([]*Oblig{}, r.Obls...), r.Covers...) {
		if (o.Status == "unknown" || o.Status == "timeout") && !o.Search && o.Kind != "table" {
			again = append(again, o)
		}
	}
	if len(again) > 0 && len(again) <= 24 {
		discharge(again, dir, timeout*4, all)
		for _, o := range again {
			fmt.Printf("RETRIED %s with a %ds limit: %s\n", o.Name, timeout*4, o.Status)
		}
	}
	solveSecs := time.Since(solveStart).Seconds()

	expect, haveExpect := r.loadExpect()
	known := r.loadKnown()
	violations := 0
	boundedOK := 0
	undecided := 0
	knownSeen := []string{}
	discharged := 0
	var recs []oblRecord
	var samples []interface{}
	seen := map[string]bool{}
	var vioLines []string
	for _, o := range r.Obls {
		seen[o.Name] = true
		if r.Verbose {
			fmt.Printf("  %-8s %-14s %6dms %3d  %s\n", o.Status, o.Solver, o.Ms, len(o.Parts), o.Name)
		}
		recs = append(recs, oblRecord{o.Name, o.Kind, o.Text, o.Status, o.Solver, o.Ms, len(o.Parts)})
		if o.Status == "unsat" {
			discharged++
			if len(samples) < 3 && len(o.Parts) > 0 {
				samples = append(samples, map[string]interface{}{"obligation": o.Name, "spec": o.Text, "verdict": "unsat (discharged)", "solver": o.Solver, "ms": o.Ms,
					"smt_head": head(o.Ctx.Script(o.Parts[0].NAssume, o.Parts[0].NegGoal, false), 1200)})
			}
			continue
		}
		where := ""
		if o.FailedPart < len(o.Parts) {
			where = o.Parts[o.FailedPart].Where
		}
		// known finding?
		matched := false
		for _, k := range known {
			if k.Property == r.Prop && k.Obligation == o.Name && (k.Where == "" || strings.Contains(where, k.Where)) {
				fmt.Printf("KNOWN-FINDING: property=%s %s [%s]\n", r.Prop, k.What, o.Name)
				knownSeen = append(knownSeen, o.Name)
				matched = true
				break
			}
		}
		if matched {
			continue
		}
		_, isPinned := expect[o.Name]
		if o.Search && (o.Status == "unknown") {
			r.Bounded = append(r.Bounded, fmt.Sprintf("bounded: %s — counterexample search only (the proof is beyond the solvers); no counterexample within %ds on any solver; not counted as proved", o.Name, searchTimeoutSec))
			boundedOK++
			continue
		}
		if o.Status == "sat" || o.Status == "disagree" || isPinned || !haveExpect {
			violations++
			if o.Status == "sat" && !r.NoReplay {
				o.StrIDs = o.Ctx.strIDs()
				rr := r.tryReplay(o)
				o.Replay = &rr
			}
			path := r.writeReplay(o, where)
			suffix := ""
			if !r.replayed(o) {
				suffix = " no-failing-input-found"
			}
			vioLines = append(vioLines, fmt.Sprintf("VIOLATION property=%s replay=%s obligation=%s status=%s at=%s%s", r.Prop, path, o.Name, o.Status, where, suffix))
		} else {
			undecided++
			fmt.Printf("UNDECIDED %s (%s) — not pinned, not reported as a violation\n", o.Name, o.Status)
		}
	}
	// pinned obligations that no longer exist
	for _, c := range r.Covers {
		seen[c.Name] = true
	}
	missing := []string{}
	for name := range expect {
		if !seen[name] {
			missing = append(missing, name)
		}
	}
	sort.Strings(missing)
	// known findings that stopped failing: the check is broken (canary)
	for _, k := range known {
		if k.Property != r.Prop {
			continue
		}
		found := false
		for _, n := range knownSeen {
			if n == k.Obligation {
				found = true
			}
		}
		if !found && seen[k.Obligation] {
			fmt.Printf("NOTE known finding no longer fails (fixed?): %s\n", k.Obligation)
		}
	}
	// vacuity
	vac := []string{}
	for _, c := range r.Covers {
		if r.Verbose {
			fmt.Printf("  cover:%-6s %-14s %6dms  %s\n", c.Status, c.Solver, c.Ms, c.Name)
		}
		if c.Status == "unsat" {
			if _, isPinned := expect[c.Name]; isPinned {
				// a situation that was reachable on the unchanged tree (pinned as SAT)
				// can no longer occur: the code no longer gets there (it fails or panics
				// on every such path), and every postcondition about it holds vacuously
				violations++
				c.Text = "REACHABILITY LOST (satisfiable on the unchanged tree, unsatisfiable now): " + c.Text
				path := r.writeReplay(c, "function")
				vioLines = append(vioLines, fmt.Sprintf("VIOLATION property=%s replay=%s obligation=%s status=unreachable at=function no-failing-input-found", r.Prop, path, c.Name))
				continue
			}
			vac = append(vac, c.Name)
		}
	}
	// a call site may be executed in several inlined instances (wrapper actions
	// call the wrapped action on more than one branch): it is dead only if the
	// continuation is unreachable in every instance
	deadSites := 0
	alive := map[string]bool{}
	siteKey := func(n string) string {
		if i := strings.LastIndex(n, " #"); i >= 0 {
			return n[:i]
		}
		return n
	}
	for _, c := range r.SiteCovers {
		if c.Status != "unsat" {
			alive[siteKey(c.Name)] = true
		}
	}
	reported := map[string]bool{}
	for _, c := range r.SiteCovers {
		k := siteKey(c.Name)
		if c.Status == "unsat" && !alive[k] && !reported[k] {
			reported[k] = true
			deadSites++
			fmt.Printf("DEAD-AFTER-CALL %s]\n", k)
		}
	}
	if len(r.SiteCovers) > 0 {
		fmt.Printf("site covers: %d contract applications checked, %d with an unreachable continuation\n", len(r.SiteCovers), deadSites)
	}
	for _, l := range vioLines {
		fmt.Println(l)
	}
	if r.Pin {
		r.writeExpect()
	}
	// evidence
	notes := sortedKeys(r.Notes)
	trusted := append([]string{}, r.Trusted...)
	trusted = append(trusted, r.trustedBase()...)
	ev := map[string]interface{}{
		"property_id": r.Prop,
		"tier":        r.Tier,
		"seed":        seedFromEnv(),
		"level":       "proof",
		"wall_s":      time.Since(r.Start).Seconds(),
		"violations":  violations,
		"assumptions": append(append([]string{
			"go/packages + go/ssa (x/tools v0.29.0) represent the compiled program faithfully; the Go compiler and runtime implement the language semantics",
			"the SMT solvers (z3 4.8.12, z3 5.1.0, cvc5 1.0) are sound on the quantifier-free bit-vector/array/UF queries they answer unsat",
			"single-threaded semantics: goroutine interleavings and data races are outside this check",
		}, notes...), r.Bounded...),
		"coverage": map[string]interface{}{
			"obligations":         len(r.Obls) - boundedOK - len(knownSeen),
			"bounded_searches":    boundedOK,
			"discharged":          discharged,
			"checker_cmd":         fmt.Sprintf("bin/govc check -prop %s -tier %s (VC generation over go/ssa of %s; back ends z3 4.8.12, z3 5.1.0, cvc5 1.0 raced per obligation)", r.Prop, r.Tier, r.Repo),
			"trusted_base":        trusted,
			"functions":           r.Funcs,
			"obligation_results":  recs,
			"samples":             samples,
			"known_findings_seen": knownSeen,
			"undecided_unpinned":  undecided,
			"stale":               r.Stale,
			"missing_pinned":      missing,
			"vacuity_failures":    vac,
			"bounded":             r.Bounded,
			"load_s":              r.LoadSecs,
			"solver_s":            solveSecs,
			"solver_timeout_s":    timeout,
			"all_solvers_agree":   all,
			"integers":            "machine integers are exact bit-vectors (Go wrap-around); spec-level mi() values are 192-bit bit-vectors",
		},
	}
	os.MkdirAll(filepath.Join(r.Out, "evidence"), 0o755)
	b, _ := json.MarshalIndent(ev, "", " ")
	os.WriteFile(filepath.Join(r.Out, "evidence", r.Prop+".json"), b, 0o644)

	fmt.Printf("govc: property=%s tier=%s obligations=%d discharged=%d known=%d violations=%d undecided=%d stale=%d missing=%d vacuous=%d load=%.1fs solve=%.1fs\n",
		r.Prop, r.Tier, len(r.Obls), discharged, len(knownSeen), violations, undecided, len(r.Stale), len(missing), len(vac), r.LoadSecs, solveSecs)
	if violations > 0 {
		os.Exit(1)
	}
	if len(vac) > 0 {
		fmt.Printf("BROKEN property=%s vacuous contracts: %v\n", r.Prop, vac)
		os.Exit(3)
	}
	if len(r.Stale) > 0 || len(missing) > 0 {
		for _, m := range missing {
			fmt.Printf("STALE pinned obligation no longer generated: %s\n", m)
		}
		os.Exit(3)
	}
}

func seedFromEnv() int {
	n, _ := strconv.Atoi(os.Getenv("VERIF_SEED"))
	return n
}

func head(s string, n int) string {
	if len(s) <= n {
		return s
	}
	return s[:n] + "…"
}

func (r *Run) writeExpect() {
	os.MkdirAll(filepath.Join(r.Verif, "expect"), 0o755)
	var lines []string
	for _, o := range r.Obls {
		if o.Status == "unsat" {
			lines = append(lines, fmt.Sprintf("%s\t%s\t%d", o.Name, o.Solver, o.Ms))
		}
	}
	for _, c := range r.Covers {
		if c.Status == "sat" {
			lines = append(lines, fmt.Sprintf("%s\tcover-sat\t%d", c.Name, c.Ms))
		}
	}
	sort.Strings(lines)
	os.WriteFile(r.expectPath(), []byte("# obligations that discharge on the unchanged tree (name, first solver, ms)\n"+strings.Join(lines, "\n")+"\n"), 0o644)
}

func (r *Run) trustedBase() []string {
	tb := []string{
		"go/ssa (x/tools v0.29.0) construction is faithful to the Go compiler",
		"govc's translation of SSA to SMT-LIB (bit-vector integers, per-field heap arrays, allocation frontier)",
		"SMT solvers z3 4.8.12 / z3 5.1.0 / cvc5 1.0.3",
	}
	if r.eng != nil {
		var ks []string
		for k, ct := range r.eng.cs.Funcs {
			if ct.IsIface {
				ks = append(ks, "assumed environment contract on interface method "+k)
			}
		}
		sort.Strings(ks)
		_ = ks
	}
	return tb
}


// replay support (see replay.go)
func (r *Run) replayed(o *Oblig) bool { return o.Replay != nil && o.Replay.Confirmed }

// strIDs maps the numeric identities of string literals back to their text.
func (c *Ctx) strIDs() map[string]string {
	m := map[string]string{"0": ""}
	for i, s := range c.strOrder {
		m[fmt.Sprint((1<<62)+i+1)] = s
	}
	return m
}

func (r *Run) writeReplay(o *Oblig, where string) string {
	dir := filepath.Join(r.Out, "replays", r.Prop)
	os.MkdirAll(dir, 0o755)
	path := filepath.Join(dir, sanitize(o.Name)+".txt")
	var b strings.Builder
	fmt.Fprintf(&b, "property: %s\nfailed obligation: %s\nkind: %s\nspec: %s\nfunction: %s\nat: %s\nsolver verdict: %s (%s)\n\n", r.Prop, o.Name, o.Kind, o.Text, o.Func, where, o.Status, o.Solver)
	if len(o.CexVals) > 0 {
		fmt.Fprintf(&b, "---- counterexample (model values; in.* = inputs at entry, out.* = values at the failing return) ----\n%s\n", formatCex(o, o.CexVals))
	}
	if o.Replay != nil {
		rp := o.Replay
		fmt.Fprintf(&b, "---- replay on the real code ----\nattempted: %v\nconfirmed: %v\n%s\n", rp.Attempted, rp.Confirmed, rp.Reason)
		if rp.Attempted {
			fmt.Fprintf(&b, "command: %s\n\n-- zz_verif_replay_test.go --\n%s\n-- output --\n%s\n", rp.Cmd, rp.TestFile, head(rp.Output, 4000))
		}
	}
	fmt.Fprintf(&b, "---- solver output ----\n%s\n", head(o.Output, 20000))
	if o.FailedPart < len(o.Parts) {
		p := o.Parts[o.FailedPart]
		fmt.Fprintf(&b, "\n---- query (SMT-LIB) ----\n%s\n", o.Ctx.Script(p.NAssume, p.NegGoal, true))
	}
	os.WriteFile(path, []byte(b.String()), 0o644)
	return path
}
