package main

// Symbolic execution of go/ssa functions into SMT definitions.
// One Exec = one verification unit (one function under contract).

import (
	"go/ast"
	"os"
	"fmt"
	"go/constant"
	"go/token"
	"go/types"
	"sort"
	"strings"

	"golang.org/x/tools/go/ssa"
)

type OblPart struct {
	NegGoal Term // satisfiable ⇒ obligation fails
	NAssume int
	Where   string
	Cex     []CexTerm // terms whose model values describe a counterexample
}

type Oblig struct {
	Name     string
	Props    []string
	Kind     string // ensures, pre, loop, nopanic, assigns, lemma, table
	Text     string
	Parts    []OblPart
	Ctx      *Ctx
	Advisory bool
	Func     string
	// filled by the solver stage
	Status string // unsat (discharged) | sat | unknown
	Solver string
	Ms     int64
	Model  string
	Output string
	FailedPart int
	CexVals    map[string]string
	TopFn      *ssa.Function
	Search     bool // refutation-only obligation ("refute"): unknown is a bounded pass, never counted as proved
	StrIDs     map[string]string
	Replay     *replayResult
}

type Exec struct {
	e     *Engine
	c     *Ctx
	reg   *heapReg
	obls  map[string]*Oblig
	order []string
	top   *ssa.Function
	ct    *Contract
	inst  int
	sliceCtr int
	stack []*ssa.Function
	curProps []string
	// per-run bookkeeping
	inlined  map[string]bool
	havocked map[string]bool
	usedContracts map[string]bool
	topFrame *frame
	deferDepth int
	knownNonNil map[string]bool
	globalsSeen map[string]bool
	globalList  []Term
	rangeOf     map[*ssa.Range]Val
	idBound     map[string]Term // heap array symbol (of a slice-id leaf) -> frontier at its creation
	refBound    map[string]Term // heap array symbol -> allocation frontier at its creation
	localArrs   []localArr      // arrays allocated by the code under verification
	locals      []*localObj     // other objects allocated by the code under verification
	localByRoot map[string]*localObj
	contains    map[string]map[string]bool // local container -> local objects stored in it
	escaped     map[string]bool // by ref term: handed to a call that is not followed
	curArgs     []Val
	inAtoiAxioms bool
	ensCover    map[string]*ensCover // per implication-shaped postcondition: antecedent reachable at some return
	ensCoverOrder []string
	staleLoop   map[int]bool // loops whose declared clauses do not evaluate on the current code
	atoiAxiom   map[string]bool
	specDepth   int
	wantResult  int // nth(k, call): result index wanted from the next spec-level call
	nReq        int
	coverReach  Term
	noPanicAll  bool
	lockObls    bool
	cexBase     []CexTerm
	// state units (FSM layer): the statically known action chain of the state
	nameOverride string
	chain        []*ssa.Function
	chainPos     int
	visited      map[*ssa.Range]Term // ghost: keys already delivered by a map iteration
	forallVals   []Val               // the contract's universally quantified constants
	curCC        *ssa.CallCommon     // the call being executed (frame by encapsulation)
	curFn        *ssa.Function
	siteCovers   []*Oblig // reachability of the continuation of each contract application (diagnostic)
}

type frame struct {
	fn     *ssa.Function
	prefix string
	vals   map[ssa.Value]Val
	reach  map[*ssa.BasicBlock]Term
	out    map[*ssa.BasicBlock]*State
	edge   map[[2]int]Term // (pred index, succ position) → condition
	defers []*deferRec
	depth  int
	top    bool
	env    *specEnv // top-level only: for invariants
	params map[string]Val
}

type deferRec struct {
	instr *ssa.Defer
	cond  Term
	args  []Val
	fnVal Val
}

type Ret struct {
	reach Term
	vals  []Val
	st    *State
	panicked bool
	pos      string
}

func (x *Exec) addObl(name, kind, text string, props []string, part OblPart, advisory bool) {
	o, ok := x.obls[name]
	if !ok {
		o = &Oblig{Name: name, Kind: kind, Text: text, Props: props, Ctx: x.c, Advisory: advisory, Func: x.top.String(), TopFn: x.top}
		x.obls[name] = o
		x.order = append(x.order, name)
	}
	o.Parts = append(o.Parts, part)
}

func (x *Exec) newState() *State {
	st := &State{heap: map[string]Term{}, ghost: map[string]Val{}, res: baseResolver}
	st.ctr = x.c.Named("ctr0", SRef)
	// (the allocation counter does not wrap around: fewer than 2^31 objects)
	x.c.Assume(Op("bvult", SBool, st.ctr, BVLit(1<<31, 32)))
	st.sctr = x.c.Named("sctr0", SBV(64))
	x.c.Assume(Op("bvult", SBool, BVLit(0, 64), st.sctr))
	x.c.Assume(Op("bvult", SBool, st.sctr, BVLit(1<<61, 64)))
	st.held = x.c.Named("held0", SArr(SBV(64), SBool))
	return st
}

// ---- addresses ----

func joinPath(p, l string) string {
	switch {
	case p == "":
		return l
	case l == "":
		return p
	case strings.HasPrefix(l, "#"):
		return p + l
	}
	return p + "." + l
}

func (x *Exec) toAddr(v Val) *Addr {
	if v.A != nil {
		return v.A
	}
	pt, ok := v.T.Underlying().(*types.Pointer)
	if !ok {
		panic(fmt.Sprintf("toAddr: not a pointer: %v", v.T))
	}
	return &Addr{Kind: addrObj, Base: v.L[0], Obj: pt.Elem(), Path: "", FT: pt.Elem()}
}

// scalarize turns an lvalue pointer into a plain Ref term.
func (x *Exec) scalarize(v Val) Val {
	if v.A == nil {
		return v
	}
	a := v.A
	if a.Kind == addrObj && a.Path == "" {
		return Val{T: v.T, L: []Term{a.Base}}
	}
	if a.Kind == addrObj {
		t := x.c.App("fieldptr_"+typeKey(a.Obj)+"_"+a.Path, SRef, a.Base)
		x.c.Note("interior pointer &(%s).%s abstracted by an uninterpreted function", typeKey(a.Obj), a.Path)
		return Val{T: v.T, L: []Term{t}}
	}
	if a.Kind == addrArrIdx {
		t := x.c.App("arrfieldptr_"+typeKey(a.Obj)+"_"+a.Path, SRef, a.Base, a.Index)
		return Val{T: v.T, L: []Term{t}}
	}
	t := x.c.App("elemptr_"+a.Path, SRef, a.SliceID, a.Index)
	return Val{T: v.T, L: []Term{t}}
}

func arrayOf(t types.Type) (*types.Array, bool) {
	a, ok := t.Underlying().(*types.Array)
	return a, ok
}

// arrSliceID: the backing store of a top-level array object is kept in the
// slice-element heap under this identity.
func (x *Exec) arrSliceID(arrT types.Type, ref Term) Term {
	// the backing store of an array object is identified by the object: 2^62 + ref
	// (stores handed out by make / append are numbered below 2^62; ids of other
	// origin -- results of library functions -- are unconstrained)
	_ = arrT
	return x.c.Define("arrstore", Op("bvadd", SBV(64), BVLit(1<<62, 64), Extend(ref, 64, false)))
}

// olderSliceID: id denotes a backing store that existed when the frontiers were sb
// (make / append stores) and cb (objects).
func olderSliceID(id, sb, cb Term) Term {
	return Or(Op("bvult", SBool, id, sb),
		And(Op("bvuge", SBool, id, BVLit(1<<62, 64)), Op("bvult", SBool, id, Op("bvadd", SBV(64), BVLit(1<<62, 64), Extend(cb, 64, false)))),
		Op("bvuge", SBool, id, Term{"#x8000000000000000", SBV(64)}))
}

// leafLoc describes where one leaf of an addressed value lives.
type leafLoc struct {
	key  string
	srt  Sort
	idx1 Term
	idx2 *Term
}

func (x *Exec) leafLocs(a *Addr) ([]Leaf, []leafLoc, bool) {
	sh := shape(a.FT)
	locs := make([]leafLoc, len(sh))
	switch a.Kind {
	case addrObj:
		if arr, ok := arrayOf(a.Obj); ok && a.Path == "" {
			// whole top-level array object: lives in the slice heap
			es := shape(arr.Elem())
			if len(es) != 1 || len(sh) != 1 || !sh[0].Sort.IsArr() {
				return sh, nil, false
			}
			id := x.arrSliceID(a.Obj, a.Base)
			locs[0] = leafLoc{key: sliceKey(arr.Elem(), es[0].Path), srt: SArr(SBV(64), sh[0].Sort), idx1: id}
			return sh, locs, true
		}
		for i, l := range sh {
			locs[i] = leafLoc{key: objKey(a.Obj, joinPath(a.Path, l.Path)), srt: SArr(SRef, l.Sort), idx1: a.Base}
		}
	case addrElem:
		for i, l := range sh {
			idx := a.Index
			locs[i] = leafLoc{key: sliceKey(a.ElemT, joinPath(a.Path, l.Path)), srt: SArr(SBV(64), SArr(SBV(64), l.Sort)), idx1: a.SliceID, idx2: &idx}
		}
	case addrArrIdx:
		if len(sh) != 1 {
			return sh, nil, false
		}
		idx := a.Index
		locs[0] = leafLoc{key: objKey(a.Obj, a.Path), srt: SArr(SRef, SArr(SBV(64), sh[0].Sort)), idx1: a.Base, idx2: &idx}
	}
	return sh, locs, true
}

func (x *Exec) load(st *State, a *Addr, reach Term) Val {
	sh, locs, ok := x.leafLocs(a)
	out := Val{T: a.FT, L: make([]Term, len(sh))}
	if !ok {
		x.c.Note("load of %s through an unsupported address shape yields an arbitrary value", typeKey(a.FT))
		return freshVal(x.c, "ldopaque", a.FT)
	}
	for i, l := range sh {
		arr := x.heapGet(st, locs[i].key, locs[i].srt)
		t := Select(arr, locs[i].idx1)
		if locs[i].idx2 != nil {
			t = Select(t, *locs[i].idx2)
		}
		out.L[i] = x.c.Define("ld", t)
		if l.isRef() {
			x.c.Assume(Imp(reach, Op("bvult", SBool, out.L[i], st.ctr)))
			// what an initial / havocked heap holds at this place is older than that heap
			if len(x.refBound) > 0 {
				for sym := range x.c.FreeSymbols(arr) {
					if b, ok := x.refBound[sym]; ok && x.c.origin[sym] == locs[i].key {
						v := Select(Term{sym, locs[i].srt}, locs[i].idx1)
						if locs[i].idx2 != nil {
							v = Select(v, *locs[i].idx2)
						}
						x.c.Assume(Op("bvult", SBool, v, b))
					}
				}
			}
		}
		if strings.HasSuffix(l.Path, "#id") && l.Sort == SBV(64) {
			// a stored slice was handed out before: below the frontier of fresh stores
			x.c.Assume(Imp(reach, olderSliceID(out.L[i], st.sctr, st.ctr)))
			// and what an initial / havocked heap holds at this place is older than that heap
			if locs[i].idx2 == nil && len(x.idBound) > 0 {
				for sym := range x.c.FreeSymbols(arr) {
					if b, ok := x.idBound[sym]; ok && x.c.origin[sym] == locs[i].key {
						if cb, ok := x.refBound[sym]; ok {
							v := Select(Term{sym, locs[i].srt}, locs[i].idx1)
							x.c.Assume(olderSliceID(v, b, cb))
						}
					}
				}
			}
		}
	}
	return out
}

func (x *Exec) store(st *State, a *Addr, v Val) {
	sh, locs, ok := x.leafLocs(a)
	v = x.scalarize(x.materialize(v, a.FT))
	if !ok {
		x.c.Note("store of %s through an unsupported address shape is dropped (target havocked on read)", typeKey(a.FT))
		return
	}
	if len(v.L) != len(sh) {
		panic(fmt.Sprintf("store: shape mismatch %v (%d) into %v (%d)", v.T, len(v.L), a.FT, len(sh)))
	}
	for i := range sh {
		arr := x.heapGet(st, locs[i].key, locs[i].srt)
		if locs[i].idx2 != nil {
			x.heapSet(st, locs[i].key, Store(arr, locs[i].idx1, Store(Select(arr, locs[i].idx1), *locs[i].idx2, v.L[i])))
		} else {
			x.heapSet(st, locs[i].key, Store(arr, locs[i].idx1, v.L[i]))
		}
	}
}

// alloc creates a fresh heap object of type t initialised to zero.
func (x *Exec) alloc(st *State, t types.Type, reach Term) Term {
	ref := st.ctr
	st.ctr = x.c.Define("ctr", Op("bvadd", SRef, st.ctr, BVLit(1, 32)))
	x.c.Assume(Op("bvult", SBool, ref, st.ctr)) // no wrap of the frontier
	if arr, ok := arrayOf(t); ok {
		// zero every element leaf in the slice heap
		id := x.arrSliceID(t, ref)
		x.c.Assume(Not(Eq(id, BVLit(0, 64))))
		for _, l := range shape(arr.Elem()) {
			key := sliceKey(arr.Elem(), l.Path)
			srt := SArr(SBV(64), SArr(SBV(64), l.Sort))
			h := x.heapGet(st, key, srt)
			z := zeroLeaf(x.c, Leaf{"", SArr(SBV(64), l.Sort), nil})
			x.heapSet(st, key, Store(h, id, z))
		}
		return ref
	}
	a := &Addr{Kind: addrObj, Base: ref, Obj: t, Path: "", FT: t}
	x.store(st, a, zeroVal(x.c, t))
	return ref
}

// ---- constants ----

func (x *Exec) constVal(cv constant.Value, t types.Type) Val {
	if t == nil {
		return Val{C: cv}
	}
	switch u := t.Underlying().(type) {
	case *types.Basic:
		switch {
		case u.Info()&types.IsBoolean != 0:
			if constant.BoolVal(cv) {
				return Val{T: t, L: []Term{TTrue}}
			}
			return Val{T: t, L: []Term{TFalse}}
		case u.Info()&types.IsInteger != 0:
			w := basicSort(u).Width()
			bi, ok := constant.Val(constant.ToInt(cv)).(interface{})
			_ = ok
			switch v := bi.(type) {
			case int64:
				return Val{T: t, L: []Term{BVLit(v, w)}}
			default:
				// *big.Int
				s := constant.ToInt(cv).ExactString()
				return Val{T: t, L: []Term{bvFromDecimal(s, w)}}
			}
		case u.Info()&types.IsString != 0:
			return Val{T: t, L: []Term{x.c.StrLit(constant.StringVal(cv))}}
		case u.Info()&types.IsFloat != 0:
			f, _ := constant.Float64Val(cv)
			return Val{T: t, L: []Term{fpLit(f, basicSort(u))}}
		case u.Kind() == types.UntypedNil:
			return Val{T: t, L: []Term{BVLit(0, 32)}}
		}
	}
	panic(fmt.Sprintf("constVal: unsupported %v : %v", cv, t))
}

func (x *Exec) ssaConst(k *ssa.Const) Val {
	t := k.Type()
	if k.Value == nil {
		// zero value / nil
		if tp, ok := t.(*types.Basic); ok && tp.Kind() == types.UntypedNil {
			return Val{T: t, L: []Term{BVLit(0, 32)}}
		}
		return zeroVal(x.c, t)
	}
	return x.constVal(k.Value, t)
}

// materialize converts an untyped constant / mathint-compatible value to type t.
func (x *Exec) materialize(v Val, t types.Type) Val {
	if v.C != nil {
		return x.constVal(v.C, t)
	}
	return v
}

// ---- running a function ----

func backEdge(from, to *ssa.BasicBlock) bool {
	return to.Dominates(from)
}

func rpo(fn *ssa.Function) []*ssa.BasicBlock {
	seen := map[*ssa.BasicBlock]bool{}
	var post []*ssa.BasicBlock
	var dfs func(b *ssa.BasicBlock)
	dfs = func(b *ssa.BasicBlock) {
		seen[b] = true
		for _, s := range b.Succs {
			if backEdge(b, s) {
				continue
			}
			if !seen[s] {
				dfs(s)
			}
		}
		post = append(post, b)
	}
	if len(fn.Blocks) > 0 {
		dfs(fn.Blocks[0])
	}
	// reverse
	for i, j := 0, len(post)-1; i < j; i, j = i+1, j-1 {
		post[i], post[j] = post[j], post[i]
	}
	return post
}

func hasLoops(fn *ssa.Function) bool {
	for _, b := range fn.Blocks {
		for _, s := range b.Succs {
			if backEdge(b, s) {
				return true
			}
		}
	}
	return false
}

// loopBody returns the natural loop of header h (union over its back edges).
func loopBody(h *ssa.BasicBlock) map[*ssa.BasicBlock]bool {
	body := map[*ssa.BasicBlock]bool{h: true}
	var stack []*ssa.BasicBlock
	for _, p := range h.Preds {
		if backEdge(p, h) {
			if !body[p] {
				body[p] = true
				stack = append(stack, p)
			}
		}
	}
	for len(stack) > 0 {
		b := stack[len(stack)-1]
		stack = stack[:len(stack)-1]
		for _, p := range b.Preds {
			if !body[p] {
				body[p] = true
				stack = append(stack, p)
			}
		}
	}
	return body
}

func loopHeaders(fn *ssa.Function) []*ssa.BasicBlock {
	var hs []*ssa.BasicBlock
	for _, b := range fn.Blocks {
		for _, p := range b.Preds {
			if backEdge(p, b) {
				hs = append(hs, b)
				break
			}
		}
	}
	sort.Slice(hs, func(i, j int) bool { return hs[i].Index < hs[j].Index })
	return hs
}

func (x *Exec) runFunc(fn *ssa.Function, args []Val, fvs []Val, st0 *State, reach0 Term, depth int, top bool, env *specEnv) []Ret {
	if len(fn.Blocks) == 0 {
		panic("runFunc: no body for " + fn.String())
	}
	x.inst++
	fr := &frame{fn: fn, prefix: fmt.Sprintf("f%d", x.inst), vals: map[ssa.Value]Val{}, reach: map[*ssa.BasicBlock]Term{},
		out: map[*ssa.BasicBlock]*State{}, edge: map[[2]int]Term{}, depth: depth, top: top, env: env}
	if top {
		x.topFrame = fr
	}
	for i, p := range fn.Params {
		fr.vals[p] = x.materialize(args[i], p.Type())
	}
	for i, fv := range fn.FreeVars {
		if i < len(fvs) {
			fr.vals[fv] = fvs[i]
		} else {
			fr.vals[fv] = freshVal(x.c, fr.prefix+"_fv_"+fv.Name(), fv.Type())
		}
	}
	x.stack = append(x.stack, fn)
	defer func() { x.stack = x.stack[:len(x.stack)-1] }()

	headers := loopHeaders(fn)
	hidx := map[*ssa.BasicBlock]int{}
	for i, h := range headers {
		hidx[h] = i
	}
	var rets []Ret
	for _, b := range rpo(fn) {
		var st *State
		var reach Term
		if b.Index == 0 {
			st = st0.clone()
			reach = reach0
		} else {
			var conds []Term
			var sts []*State
			var preds []*ssa.BasicBlock
			for _, p := range b.Preds {
				if backEdge(p, b) {
					continue
				}
				ps, ok := fr.out[p]
				if !ok {
					continue
				}
				ec := x.edgeCond(fr, p, b)
				if ec.IsFalse() {
					continue
				}
				dup := false
				for _, q := range preds {
					if q == p {
						dup = true
					}
				}
				if dup {
					continue
				}
				conds = append(conds, ec)
				sts = append(sts, ps)
				preds = append(preds, p)
			}
			if len(preds) == 0 {
				continue // unreachable
			}
			reach = x.c.Define(fr.prefix+"_r"+fmt.Sprint(b.Index), Or(conds...))
			st = x.mergeStates(conds, sts)
			// phis
			for _, ins := range b.Instrs {
				phi, ok := ins.(*ssa.Phi)
				if !ok {
					break
				}
				var acc Val
				first := true
				for i, p := range b.Preds {
					if backEdge(p, b) {
						continue
					}
					if _, ok := fr.out[p]; !ok {
						continue
					}
					ec := x.edgeCond(fr, p, b)
					if ec.IsFalse() {
						continue
					}
					v := x.materialize(x.val(fr, phi.Edges[i]), phi.Type())
					v = x.scalarize(v)
					if first {
						acc = v
						first = false
					} else {
						acc = iteVal(ec, v, acc)
					}
				}
				acc.T = phi.Type()
				for j := range acc.L {
					acc.L[j] = x.c.Define(fr.prefix+"_"+phi.Name(), acc.L[j])
				}
				fr.vals[phi] = acc
			}
			if hi, isHeader := hidx[b]; isHeader {
				x.loopHeader(fr, b, hi, st, reach)
			}
		}
		fr.reach[b] = reach
		x.runBlock(fr, b, st, reach, &rets)
	}
	return rets
}

func (x *Exec) edgeCond(fr *frame, p, b *ssa.BasicBlock) Term {
	var cs []Term
	for j, s := range p.Succs {
		if s == b {
			if c, ok := fr.edge[[2]int{p.Index, j}]; ok {
				cs = append(cs, c)
			}
		}
	}
	return Or(cs...)
}

// loopHeader: cut the loop at its header. Entry obligations for declared
// invariants, havoc of everything the body may modify, assumption of the
// invariants for an arbitrary iteration.
func (x *Exec) loopHeader(fr *frame, h *ssa.BasicBlock, ordinal int, st *State, reach Term) {
	var invs []*Clause
	if fr.top && x.ct != nil {
		invs = x.ct.Loops[ordinal]
	}
	phiEnv := func() map[string]Val {
		m := map[string]Val{}
		for _, ins := range h.Instrs {
			phi, ok := ins.(*ssa.Phi)
			if !ok {
				break
			}
			if phi.Comment != "" {
				m[phi.Comment] = fr.vals[phi]
			}
		}
		return m
	}
	// A loop clause that no longer evaluates (it names a local variable the code no
	// longer has, ...) disables the loop's clauses: the loop is cut without an
	// invariant, and what then fails are the obligations that relied on it.
	if len(invs) > 0 {
		if msg := x.loopClausesEvaluate(fr, h, ordinal, st, reach, phiEnv()); msg != "" {
			x.c.Note("loop %d of %s: declared loop clauses do not apply to the current code (%s); the loop is cut without an invariant", ordinal, fr.fn.String(), msg)
			fmt.Fprintf(os.Stderr, "STALE-LOOP %s loop %d: %s\n", x.fname(), ordinal, msg)
			if x.staleLoop == nil {
				x.staleLoop = map[int]bool{}
			}
			x.staleLoop[ordinal] = true
			invs = nil
		}
	}
	// entry obligations
	for i, inv := range invs {
		env := fr.env.with(st, phiEnv())
		env.local = x.localNamer(fr, h, st, reach)
		g := x.evalBool(inv.Expr, env, reach)
		name := fmt.Sprintf("%s#loop%d.entry[%s]", x.fname(), ordinal, clauseLabel(inv, i))
		x.addObl(name, "loop", inv.Text, clauseProps(inv, x.ct), OblPart{NegGoal: And(reach, Not(g)), NAssume: len(x.c.Assumes), Where: "loop entry"}, false)
	}
	// havoc
	body := loopBody(h)
	eff := newEffects()
	for b := range body {
		for _, ins := range b.Instrs {
			eff.add(x.instrEffects(ins, 0))
		}
	}
	if (len(x.locals) > 0 || len(x.localArrs) > 0) && loopMayLeak(body) {
		x.escapeAllLocals()
	}
	x.havocEffects(st, eff, fmt.Sprintf("%s_loop%d", fr.prefix, ordinal))
	// the visited set of a map iteration driven by this loop is loop-variant too
	for b := range body {
		for _, ins := range b.Instrs {
			if nx, ok := ins.(*ssa.Next); ok {
				if rng, ok := nx.Iter.(*ssa.Range); ok {
					if vis, ok := x.visited[rng]; ok {
						x.visited[rng] = x.c.Fresh("visited", vis.Sort)
					}
				}
			}
		}
	}
	for _, ins := range h.Instrs {
		phi, ok := ins.(*ssa.Phi)
		if !ok {
			break
		}
		fr.vals[phi] = freshVal(x.c, fr.prefix+"_"+phi.Name()+"_it", phi.Type())
	}
	for _, inv := range invs {
		env := fr.env.with(st, phiEnv())
		env.local = x.localNamer(fr, h, st, reach)
		g := x.evalBool(inv.Expr, env, reach)
		x.c.Assume(Imp(reach, g))
	}
	if fr.top && x.ct != nil && !x.staleLoop[ordinal] {
		// extra instances: an invariant proved for arbitrary values of the forall
		// constants holds for every value, in particular for the given terms
		for _, ic := range x.ct.LoopInst[ordinal] {
			env := fr.env.with(st, phiEnv())
			env.local = x.localNamer(fr, h, st, reach)
			old, ok := env.names[ic.Label]
			if !ok {
				specFail("loop %d instance: unknown forall constant %q", ordinal, ic.Label)
			}
			v := x.materialize(x.evalSpec(ic.Expr, env, reach), old.T)
			m := phiEnv()
			m[ic.Label] = v
			env2 := fr.env.with(st, m)
			env2.local = env.local
			for _, inv := range invs {
				g := x.evalBool(inv.Expr, env2, reach)
				x.c.Assume(Imp(reach, g))
			}
		}
		for _, cl := range x.ct.LoopSets[ordinal] {
			env := fr.env.with(st, phiEnv())
			env.local = x.localNamer(fr, h, st, reach)
			gv, ok := st.ghost[cl.Label]
			if !ok {
				specFail("loop sets: unknown ghost %q", cl.Label)
			}
			st.ghost[cl.Label] = x.materialize(x.evalSpec(cl.Expr, env, reach), gv.T)
		}
	}
	if len(invs) == 0 {
		x.c.Note("loop %d of %s cut without a declared invariant (all state modified by the body is havocked)", ordinal, fr.fn.String())
	}
}

// backEdgeObligations: invariants must be preserved by the edge p → h.
func (x *Exec) backEdgeObligations(fr *frame, p, h *ssa.BasicBlock, ec Term, st *State) {
	if !fr.top || x.ct == nil {
		return
	}
	headers := loopHeaders(fr.fn)
	ordinal := -1
	for i, hh := range headers {
		if hh == h {
			ordinal = i
		}
	}
	invs := x.ct.Loops[ordinal]
	if len(invs) == 0 || x.staleLoop[ordinal] {
		return
	}
	m := map[string]Val{}
	pi := -1
	for i, q := range h.Preds {
		if q == p {
			pi = i
		}
	}
	for _, ins := range h.Instrs {
		phi, ok := ins.(*ssa.Phi)
		if !ok {
			break
		}
		if phi.Comment != "" && pi >= 0 {
			m[phi.Comment] = x.materialize(x.val(fr, phi.Edges[pi]), phi.Type())
		}
	}
	for i, inv := range invs {
		env := fr.env.with(st, m)
		env.local = x.localNamer(fr, h, st, ec)
		g := x.evalBool(inv.Expr, env, ec)
		name := fmt.Sprintf("%s#loop%d.preserve[%s]", x.fname(), ordinal, clauseLabel(inv, i))
		x.addObl(name, "loop", inv.Text, clauseProps(inv, x.ct), OblPart{NegGoal: And(ec, Not(g)), NAssume: len(x.c.Assumes), Where: "back edge"}, false)
	}
}

func clauseLabel(cl *Clause, i int) string {
	if cl.Label != "" {
		return cl.Label
	}
	return fmt.Sprint(i)
}

func clauseProps(cl *Clause, ct *Contract) []string {
	if len(cl.Props) > 0 {
		return cl.Props
	}
	if ct != nil {
		return ct.Props
	}
	return nil
}

func (x *Exec) fname() string {
	if x.nameOverride != "" {
		return x.nameOverride
	}
	return x.top.Pkg.Pkg.Name() + "." + x.top.RelString(x.top.Pkg.Pkg)
}

type localArr struct {
	key  string
	srt  Sort
	id   Term
	ref  string
	base Term // the array object's reference (zero Term for slices produced by pure calls)
}

// ---- local objects -------------------------------------------------------
//
// An object allocated by the code under verification (or by a constructor that
// is followed) cannot be reached by a callee that is not followed until a
// reference to it escapes: it is handed to such a call, stored into an object
// that is not local itself (or that escapes later), captured by a closure, sent
// on a channel, or put into a map. Until then its content survives the havoc a
// call causes (see havocEffects). References are tracked through definitions
// (Ctx.RootsIn), only in value positions that can carry a reference.

type localCell struct {
	key string
	srt Sort
	idx Term
}

type localObj struct {
	root  string
	cells []localCell
}

// carrierType: a value of this type may hold a reference to an object.
func carrierType(t types.Type) bool {
	return carrierType1(t, 0)
}

func carrierType1(t types.Type, d int) bool {
	if t == nil || d > 8 {
		return true
	}
	switch u := t.Underlying().(type) {
	case *types.Basic:
		return u.Kind() == types.UnsafePointer || u.Kind() == types.Uintptr
	case *types.Struct:
		for i := 0; i < u.NumFields(); i++ {
			if carrierType1(u.Field(i).Type(), d+1) {
				return true
			}
		}
		return false
	case *types.Array:
		return carrierType1(u.Elem(), d+1)
	case *types.Tuple:
		for i := 0; i < u.Len(); i++ {
			if carrierType1(u.At(i).Type(), d+1) {
				return true
			}
		}
		return false
	}
	return true
}

func (x *Exec) trackLocal(root Term, cells []localCell) {
	if root.S == "" || strings.ContainsAny(root.S, " (") {
		return
	}
	if x.localByRoot == nil {
		x.localByRoot = map[string]*localObj{}
	}
	if lo, ok := x.localByRoot[root.S]; ok {
		lo.cells = append(lo.cells, cells...)
		return
	}
	lo := &localObj{root: root.S, cells: cells}
	x.localByRoot[root.S] = lo
	x.locals = append(x.locals, lo)
	x.c.AddRoot(root.S)
}

// valRoots: the local objects a value may refer to.
func (x *Exec) valRoots(v Val) map[string]bool {
	out := map[string]bool{}
	if len(x.locals) == 0 {
		return out
	}
	add := func(t Term) {
		if t.S == "" {
			return
		}
		for r := range x.c.RootsIn(t) {
			out[r] = true
		}
	}
	if v.A != nil {
		add(v.A.Base)
		add(v.A.SliceID)
	}
	if v.T == nil || v.MI {
		for _, t := range v.L {
			add(t)
		}
		return out
	}
	sh := shape(v.T)
	if len(sh) != len(v.L) {
		for _, t := range v.L {
			add(t)
		}
		return out
	}
	for i, l := range sh {
		if strings.HasSuffix(l.Path, "#len") || strings.HasSuffix(l.Path, "#cap") {
			continue
		}
		if l.Typ != nil && !carrierType(l.Typ) {
			continue
		}
		add(v.L[i])
	}
	return out
}

func (x *Exec) escapeRoots(rs map[string]bool) {
	if x.escaped == nil {
		x.escaped = map[string]bool{}
	}
	var work []string
	for r := range rs {
		work = append(work, r)
	}
	for len(work) > 0 {
		r := work[len(work)-1]
		work = work[:len(work)-1]
		if x.escaped[r] {
			continue
		}
		x.escaped[r] = true
		if os.Getenv("GOVC_DBG_ESC") != "" {
			fmt.Fprintf(os.Stderr, "DBG escape %s in %s (call %v)\n", r, x.fname(), x.curCC)
		}
		for m := range x.contains[r] {
			work = append(work, m)
		}
	}
}

// noteEscapes: arguments of a call that is not followed make the local objects
// they refer to (and everything stored in those) reachable for the callee.
func (x *Exec) noteEscapes(args []Val) {
	if len(x.localArrs) == 0 && len(x.locals) == 0 {
		return
	}
	if x.escaped == nil {
		x.escaped = map[string]bool{}
	}
	for _, a := range args {
		x.escapeRoots(x.valRoots(a))
		// slices produced by pure calls are identified by a compound term
		var ts []Term
		ts = append(ts, a.L...)
		if a.A != nil {
			ts = append(ts, a.A.Base, a.A.SliceID)
		}
		for _, t := range ts {
			if t.S == "" {
				continue
			}
			for _, la := range x.localArrs {
				if la.base.S == "" && !x.escaped[la.ref] && strings.Contains(t.S, la.id.S) {
					x.escaped[la.ref] = true
				}
			}
		}
	}
}

// noteStore: a reference to a local object stored into another local object
// shares that object's fate; stored anywhere else it has escaped.
func (x *Exec) noteStore(a *Addr, v Val) {
	if len(x.locals) == 0 {
		return
	}
	rs := x.valRoots(v)
	if len(rs) == 0 {
		return
	}
	container := ""
	if a != nil {
		switch a.Kind {
		case addrObj, addrArrIdx:
			if _, ok := x.localByRoot[a.Base.S]; ok {
				container = a.Base.S
			}
		case addrElem:
			for _, la := range x.localArrs {
				if la.base.S != "" && la.id.S == a.SliceID.S {
					container = la.ref
				}
			}
		}
	}
	if container == "" || x.escaped[container] {
		x.escapeRoots(rs)
		return
	}
	if x.contains == nil {
		x.contains = map[string]map[string]bool{}
	}
	if x.contains[container] == nil {
		x.contains[container] = map[string]bool{}
	}
	for r := range rs {
		if r != container {
			x.contains[container][r] = true
		}
	}
}

// loopMayLeak: some instruction of the loop body can make a reference reachable
// for code that is not followed. The body is executed once, for an arbitrary
// iteration: an object that escapes late in the body has escaped already at the
// top of the next iteration, so objects allocated before such a loop are treated
// as escaped from its header on.
func loopMayLeak(body map[*ssa.BasicBlock]bool) bool {
	for b := range body {
		for _, ins := range b.Instrs {
			switch i := ins.(type) {
			case *ssa.Store:
				if carrierType(i.Val.Type()) {
					return true
				}
			case *ssa.MapUpdate:
				if carrierType(i.Value.Type()) || carrierType(i.Key.Type()) {
					return true
				}
			case *ssa.Send:
				if carrierType(i.X.Type()) {
					return true
				}
			case *ssa.MakeClosure:
				if len(i.Bindings) > 0 {
					return true
				}
			case *ssa.Go, *ssa.Defer:
				return true
			case *ssa.Call:
				if bi, ok := i.Call.Value.(*ssa.Builtin); ok {
					switch bi.Name() {
					case "len", "cap", "min", "max", "print", "println", "delete", "clear", "close":
						continue
					}
				}
				if i.Call.IsInvoke() {
					return true
				}
				if _, isFn := i.Call.Value.(*ssa.Function); !isFn {
					if _, isB := i.Call.Value.(*ssa.Builtin); !isB {
						return true // closure / function value: its captures are unknown here
					}
				}
				for _, a := range i.Call.Args {
					if carrierType(a.Type()) {
						return true
					}
				}
			}
		}
	}
	return false
}

func (x *Exec) escapeAllLocals() {
	if os.Getenv("GOVC_DBG_ESC") != "" {
		fmt.Fprintf(os.Stderr, "DBG escape ALL (loop header) in %s fn=%v\n", x.fname(), x.curFn)
	}
	if x.escaped == nil {
		x.escaped = map[string]bool{}
	}
	for _, la := range x.localArrs {
		x.escaped[la.ref] = true
	}
	for _, lo := range x.locals {
		x.escaped[lo.root] = true
	}
}

// havocEffects replaces every heap key matched by eff with a fresh array.
func (x *Exec) havocEffects(st *State, eff *Effects, tag string) {
	x.havocEffectsK(st, eff, tag, false)
}

// havocEffectsK: with keepLocals (the havoc is what a callee that is not
// followed may have done), local objects that never escaped keep their content.
func (x *Exec) havocEffectsK(st *State, eff *Effects, tag string, keepLocals bool) {
	type keep struct {
		c   localCell
		old Term
	}
	var keeps []keep
	if keepLocals {
		for _, la := range x.localArrs {
			if x.escaped[la.ref] || !(eff.All || eff.matches(la.key)) {
				continue
			}
			keeps = append(keeps, keep{localCell{la.key, la.srt, la.id}, Select(x.heapGet(st, la.key, la.srt), la.id)})
		}
		for _, lo := range x.locals {
			if x.escaped[lo.root] {
				continue
			}
			for _, c := range lo.cells {
				if !(eff.All || eff.matches(c.key)) {
					continue
				}
				keeps = append(keeps, keep{c, Select(x.heapGet(st, c.key, c.srt), c.idx)})
			}
		}
	}
	defer func() {
		for _, k := range keeps {
			cur := x.heapGet(st, k.c.key, k.c.srt)
			x.heapSet(st, k.c.key, Store(cur, k.c.idx, k.old))
		}
	}()
	x.inst++
	tag = fmt.Sprintf("%s_%d", tag, x.inst)
	if eff.All || len(eff.Keys) > 0 {
		st.res = &resolver{kind: 1, tag: tag, eff: eff, below: st.res}
		for k := range st.heap {
			if eff.matches(k) {
				delete(st.heap, k)
			}
		}
	}
	for g := range st.ghost {
		if eff.All || eff.Ghosts[g] {
			if eff.Ghosts[g] {
				st.ghost[g] = freshVal(x.c, "Gh_"+tag+"_"+g, st.ghost[g].T)
			}
		}
	}
	if eff.All || len(eff.Keys) > 0 {
		old := st.ctr
		st.ctr = x.c.Fresh("ctr_"+tag, SRef)
		x.c.Assume(Op("bvule", SBool, old, st.ctr))
		x.c.Assume(Op("bvult", SBool, st.ctr, BVLit(1<<31, 32)))
		olds := st.sctr
		st.sctr = x.c.Fresh("sctr_"+tag, SBV(64))
		x.c.Assume(Op("bvule", SBool, olds, st.sctr))
		x.c.Assume(Op("bvult", SBool, st.sctr, BVLit(1<<61, 64)))
		st.res.sctr = st.sctr
		st.res.ctr = st.ctr
	}
}

var _ = token.NoPos

// localNamer resolves a source-level local variable name to the SSA value that
// reaches the loop header h (packages built with debug references only): among
// the values go/ssa recorded for the identifier, the one whose definition
// dominates h and is dominated by every other such definition. Header phis are
// not handled here (they are bound by name already).
func (x *Exec) localNamer(fr *frame, h *ssa.BasicBlock, st *State, reach Term) func(string) (Val, bool) {
	return func(name string) (Val, bool) {
		var best ssa.Value
		bestAddr := false
		better := func(v ssa.Value) bool {
			if best == nil {
				return true
			}
			bi, _ := best.(ssa.Instruction)
			vi, _ := v.(ssa.Instruction)
			if bi == nil {
				return true
			}
			if vi == nil {
				return false
			}
			if bi.Block() == vi.Block() {
				ib, iv := -1, -1
				for k, ins := range bi.Block().Instrs {
					if ins == bi {
						ib = k
					}
					if ins == vi {
						iv = k
					}
				}
				return iv > ib
			}
			return bi.Block().Dominates(vi.Block())
		}
		for _, b := range fr.fn.Blocks {
			for _, ins := range b.Instrs {
				d, ok := ins.(*ssa.DebugRef)
				if !ok {
					continue
				}
				id, ok := d.Expr.(*ast.Ident)
				if !ok || id.Name != name {
					continue
				}
				v := d.X
				if vi, isInstr := v.(ssa.Instruction); isInstr {
					if vi.Block() == nil || !vi.Block().Dominates(h) {
						continue
					}
					if phi, isPhi := v.(*ssa.Phi); isPhi && phi.Block() == h {
						continue
					}
				}
				if _, known := fr.vals[v]; !known {
					if _, isConst := v.(*ssa.Const); !isConst {
						if _, isParam := v.(*ssa.Parameter); !isParam {
							continue
						}
					}
				}
				if better(v) {
					best, bestAddr = v, d.IsAddr
				}
			}
		}
		if best == nil {
			return Val{}, false
		}
		val := x.val(fr, best)
		if bestAddr {
			return x.load(st, x.toAddr(val), reach), true
		}
		return val, true
	}
}

// loopClausesEvaluate: do all declared clauses of the loop make sense here?
// (a dry evaluation; returns the first spec error)
func (x *Exec) loopClausesEvaluate(fr *frame, h *ssa.BasicBlock, ordinal int, st *State, reach Term, phis map[string]Val) (msg string) {
	defer func() {
		if r := recover(); r != nil {
			if se, ok := r.(specError); ok {
				msg = se.msg
				return
			}
			panic(r)
		}
	}()
	env := fr.env.with(st.clone(), phis)
	env.local = x.localNamer(fr, h, st, reach)
	for _, inv := range x.ct.Loops[ordinal] {
		x.evalBool(inv.Expr, env, reach)
	}
	for _, ic := range x.ct.LoopInst[ordinal] {
		if _, ok := env.names[ic.Label]; !ok {
			specFail("instance of unknown forall constant %q", ic.Label)
		}
		x.evalSpec(ic.Expr, env, reach)
	}
	for _, cl := range x.ct.LoopSets[ordinal] {
		if _, ok := st.ghost[cl.Label]; !ok {
			specFail("unknown ghost %q", cl.Label)
		}
		x.evalSpec(cl.Expr, env, reach)
	}
	return ""
}

type ensCover struct {
	props []string
	text  string
	terms []Term
}
