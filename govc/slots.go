package main

// Cross-process solver slots: concurrent govc runs (several property checks
// started at once) share the machine's cores instead of multiplying the number
// of solver processes, so a solver's timeout measures the solver, not the load.
// A slot is an exclusive flock on one of NumCPU files; it is released when the
// solver exits (or the process dies).

import (
	"fmt"
	"math/rand"
	"os"
	"path/filepath"
	"runtime"
	"syscall"
	"time"
)

var slotDir string

func initSlots(verifDir string) {
	d := filepath.Join(verifDir, ".slots")
	if err := os.MkdirAll(d, 0o755); err != nil {
		return
	}
	slotDir = d
}

// acquireSlot blocks until a slot is free and returns its release function.
func acquireSlot() func() {
	if slotDir == "" {
		return func() {}
	}
	n := runtime.NumCPU()
	start := rand.Intn(n)
	for {
		for k := 0; k < n; k++ {
			p := filepath.Join(slotDir, fmt.Sprintf("slot%02d", (start+k)%n))
			f, err := os.OpenFile(p, os.O_CREATE|os.O_RDWR, 0o644)
			if err != nil {
				return func() {}
			}
			if syscall.Flock(int(f.Fd()), syscall.LOCK_EX|syscall.LOCK_NB) == nil {
				return func() {
					syscall.Flock(int(f.Fd()), syscall.LOCK_UN)
					f.Close()
				}
			}
			f.Close()
		}
		// all busy: wait for one (random) slot instead of polling
		p := filepath.Join(slotDir, fmt.Sprintf("slot%02d", rand.Intn(n)))
		f, err := os.OpenFile(p, os.O_CREATE|os.O_RDWR, 0o644)
		if err != nil {
			return func() {}
		}
		if syscall.Flock(int(f.Fd()), syscall.LOCK_EX) == nil {
			return func() {
				syscall.Flock(int(f.Fd()), syscall.LOCK_UN)
				f.Close()
			}
		}
		f.Close()
		time.Sleep(20 * time.Millisecond)
	}
}
