package main

import (
	"go/types"
	"strings"
)

// specIfaceCall evaluates an interface method call inside a spec by resolving it
// over the module implementations of the interface (as devirtualize does for
// code); an unknown dynamic type yields an arbitrary value.
func (x *Exec) specIfaceCall(recv Val, method string, args []Val, env *specEnv, reach Term) Val {
	named, ok := recv.T.(*types.Named)
	if !ok || named.Obj().Pkg() == nil || !strings.HasPrefix(named.Obj().Pkg().Path(), x.e.modulePath) {
		specFail("interface method call %s on a non-module interface in spec", method)
	}
	iface, ok := named.Underlying().(*types.Interface)
	if !ok {
		specFail("%s is not an interface", typeKey(recv.T))
	}
	key := typeKey(named) + "." + method
	impls, cached := x.e.implCache[key]
	if !cached {
		impls = x.e.implementations(iface, method)
		x.e.implCache[key] = impls
	}
	if len(impls) == 0 || len(impls) > maxDevirtImpls {
		specFail("interface method call %s in spec: %d implementations", method, len(impls))
	}
	var acc *Val
	for _, im := range impls {
		if len(im.fn.Blocks) == 0 || len(im.fn.Blocks) > 6 || !x.canInline(im.fn, 2) {
			specFail("interface method call %s in spec: implementation %s cannot be inlined", method, im.fn.String())
		}
		cond := Eq(recv.L[0], x.typeTag(im.dyn))
		rv := x.unbox(recv.L[1], im.dyn, TFalse)
		scratch := env.st.clone()
		res := x.inline(im.fn, append([]Val{rv}, args...), nil, scratch, And(reach, cond), 2)
		if len(res) != 1 {
			specFail("interface method %s must have exactly one result to be used in a spec", method)
		}
		if acc == nil {
			other := freshVal(x.c, "dynspec_"+method, res[0].T)
			if sig, ok := im.fn.Signature, true; ok && len(args) == 0 {
				if rs := x.unknownDynResults(key, recv, types.NewSignatureType(nil, nil, nil, sig.Params(), sig.Results(), false), method); len(rs) == 1 {
					other = rs[0]
				}
			}
			acc = &other
		}
		v := iteVal(cond, res[0], *acc)
		acc = &v
	}
	return *acc
}
