package main

// Cone-of-influence slicing of queries: only definitions reachable from the
// goal, and only assumptions that (transitively) share a free symbol with it,
// are emitted. Dropping assumptions only weakens the hypotheses, so a sliced
// `unsat` is an `unsat` of the full query.

import (
	"strings"
)

type lineInfo struct {
	name    string   // symbol introduced ("" for asserts)
	deps    []string // symbols referenced
	isAxiom bool
	isDef   bool
}

func isSymChar(c byte) bool {
	return c >= 'a' && c <= 'z' || c >= 'A' && c <= 'Z' || c >= '0' && c <= '9' || c == '_' || c == '.' || c == '!' || c == '$' || c == '-' || c == '#'
}

// symbolsOf lists identifier-like tokens of an s-expression string.
func symbolsOf(s string) []string {
	var out []string
	i := 0
	for i < len(s) {
		if isSymChar(s[i]) {
			j := i
			for j < len(s) && isSymChar(s[j]) {
				j++
			}
			tok := s[i:j]
			if !(tok[0] >= '0' && tok[0] <= '9') && tok[0] != '#' && tok[0] != '-' {
				out = append(out, tok)
			}
			i = j
		} else {
			i++
		}
	}
	return out
}

func (c *Ctx) index() {
	for len(c.info) < len(c.lines) {
		l := c.lines[len(c.info)]
		li := lineInfo{}
		switch {
		case strings.HasPrefix(l, "(declare-const "), strings.HasPrefix(l, "(declare-fun "), strings.HasPrefix(l, "(define-fun "):
			rest := l[strings.Index(l, " ")+1:]
			end := strings.IndexAny(rest, " )")
			li.name = rest[:end]
			if strings.HasPrefix(l, "(define-fun ") {
				li.deps = symbolsOf(rest[end:])
				li.isDef = true
			}
		default:
			li.isAxiom = true
			li.deps = symbolsOf(l)
		}
		c.info = append(c.info, li)
		if li.name != "" {
			c.byName[li.name] = len(c.info) - 1
		}
	}
}

// freeOf returns the declared (free) symbols a list of symbols depends on,
// looking through definitions. Definitions only refer to earlier lines, so the
// recursion terminates; results are memoised per definition.
func (c *Ctx) freeOf(syms []string, lines map[int]bool) map[string]bool {
	out := map[string]bool{}
	var visit func(s string)
	visit = func(s string) {
		idx, ok := c.byName[s]
		if !ok {
			return // builtin operator or sort name
		}
		if lines != nil {
			lines[idx] = true
		}
		li := &c.info[idx]
		if !li.isDef {
			out[s] = true
			return
		}
		fs, ok := c.freeMemo[idx]
		if !ok {
			sub := c.freeOf(li.deps, nil)
			fs = make([]string, 0, len(sub))
			for k := range sub {
				fs = append(fs, k)
			}
			c.freeMemo[idx] = fs
		}
		for _, f := range fs {
			out[f] = true
		}
		if lines != nil {
			// need the defining lines of everything underneath as well
			for _, d := range li.deps {
				if di, ok := c.byName[d]; ok && !lines[di] {
					visit(d)
				}
			}
		}
	}
	for _, s := range syms {
		visit(s)
	}
	return out
}

// sliceFor computes which prelude lines and which of the first nAssume
// assumptions are relevant for the given terms.
// hardLine: the definition (or anything it is built from) uses nonlinear or
// division bit-vector arithmetic, which the solvers bit-blast at great cost.
func (c *Ctx) hardLine(idx int) bool {
	if c.hardMemo == nil {
		c.hardMemo = map[int]bool{}
	}
	if v, ok := c.hardMemo[idx]; ok {
		return v
	}
	c.hardMemo[idx] = false // cycle guard (definitions only refer backwards)
	h := hasHardOp(c.lines[idx])
	if !h && c.info[idx].isDef {
		for _, d := range c.info[idx].deps {
			if di, ok := c.byName[d]; ok && di != idx && c.hardLine(di) {
				h = true
				break
			}
		}
	}
	c.hardMemo[idx] = h
	return h
}

func hasHardOp(s string) bool {
	return strings.Contains(s, "(bvmul") || strings.Contains(s, "(bvsdiv") || strings.Contains(s, "(bvudiv") ||
		strings.Contains(s, "(bvurem") || strings.Contains(s, "(bvsrem")
}

func (c *Ctx) hardAssume(i int) bool {
	if hasHardOp(c.Assumes[i].S) {
		return true
	}
	for _, s := range c.assumeSyms[i] {
		if di, ok := c.byName[s]; ok && c.hardLine(di) {
			return true
		}
	}
	return false
}

func (c *Ctx) sliceFor(nAssume int, thin bool, goals ...Term) (keepLine []bool, keepAssume []bool) {
	c.mu.Lock()
	defer c.mu.Unlock()
	c.index()
	if c.freeMemo == nil {
		c.freeMemo = map[int][]string{}
	}
	if nAssume > len(c.Assumes) {
		nAssume = len(c.Assumes)
	}
	for len(c.assumeFree) < len(c.Assumes) {
		i := len(c.assumeFree)
		c.assumeSyms = append(c.assumeSyms, symbolsOf(c.Assumes[i].S))
		c.assumeFree = append(c.assumeFree, c.freeOf(c.assumeSyms[i], nil))
	}
	var axiomIdx []int
	for i, li := range c.info {
		if li.isAxiom {
			axiomIdx = append(axiomIdx, i)
		}
	}
	for _, i := range axiomIdx {
		if _, ok := c.axiomFree[i]; !ok {
			if c.axiomFree == nil {
				c.axiomFree = map[int]map[string]bool{}
			}
			c.axiomFree[i] = c.freeOf(c.info[i].deps, nil)
		}
	}
	lines := map[int]bool{}
	var goalSyms []string
	for _, g := range goals {
		goalSyms = append(goalSyms, symbolsOf(g.S)...)
	}
	cone := c.freeOf(goalSyms, lines)
	keepAssume = make([]bool, nAssume)
	keptAxiom := map[int]bool{}
	changed := true
	for changed {
		changed = false
		for i := 0; i < nAssume; i++ {
			if keepAssume[i] {
				continue
			}
			hit := false
			for f := range c.assumeFree[i] {
				if cone[f] {
					hit = true
					break
				}
			}
			if hit {
				keepAssume[i] = true
				for f := range c.freeOf(c.assumeSyms[i], lines) {
					if !cone[f] {
						cone[f] = true
						changed = true
					}
				}
				changed = true
			}
		}
		for _, i := range axiomIdx {
			if keptAxiom[i] {
				continue
			}
			hit := false
			for f := range c.axiomFree[i] {
				if cone[f] {
					hit = true
					break
				}
			}
			if hit {
				keptAxiom[i] = true
				lines[i] = true
				for f := range c.freeOf(c.info[i].deps, lines) {
					if !cone[f] {
						cone[f] = true
					}
				}
				changed = true
			}
		}
	}
	keepLine = make([]bool, len(c.lines))
	for i := range lines {
		keepLine[i] = true
	}
	return
}
