package main

import (
	"bytes"
	"context"
	"fmt"
	"os"
	"os/exec"
	"path/filepath"
	"runtime"
	"sort"
	"strings"
	"sync"
	"time"
)

type solverSpec struct {
	Name string
	Args func(file string, timeoutSec int) []string
}

var allSolvers = []solverSpec{
	{"z3-new-5.1.0", func(f string, t int) []string { return []string{"z3-new", "-smt2", fmt.Sprintf("-T:%d", t), f} }},
	{"cvc5-1.0", func(f string, t int) []string {
		return []string{"cvc5", "--lang=smt2", fmt.Sprintf("--tlimit=%d", t*1000), f}
	}},
	{"z3-4.8.12", func(f string, t int) []string { return []string{"z3", "-smt2", fmt.Sprintf("-T:%d", t), f} }},
}

// quick tier races the two solvers that decide fastest in practice; the
// thorough tier runs all three and requires two agreeing definitive answers
// (all three when two disagree or fewer than two are definitive).
var solvers = allSolvers

var procSem = make(chan struct{}, runtime.NumCPU())

// searchTimeoutSec bounds refutation-only obligations (quick tier keeps them short).
var searchTimeoutSec = 0

type solveResult struct {
	Verdicts []string // one per check-sat: unsat, sat, unknown, error
	Solver   string
	Ms       int64
	Output   string
	All      map[string][]string
}

// parseVerdicts extracts one verdict per (check-sat). An (error …) before a
// verdict poisons that and all later verdicts.
func parseVerdicts(text string, n int) []string {
	out := make([]string, 0, n)
	poisoned := false
	for _, line := range strings.Split(text, "\n") {
		line = strings.TrimSpace(line)
		switch line {
		case "sat", "unsat":
			if poisoned {
				out = append(out, "error")
			} else {
				out = append(out, line)
			}
		case "unknown", "timeout":
			out = append(out, "unknown")
		default:
			if strings.HasPrefix(line, "(error") && !strings.Contains(line, "model is not available") {
				poisoned = true
			}
		}
		if len(out) == n {
			break
		}
	}
	for len(out) < n {
		if poisoned {
			out = append(out, "error")
		} else {
			out = append(out, "unknown")
		}
	}
	return out
}

func definitive(vs []string) bool {
	for _, v := range vs {
		if v != "sat" && v != "unsat" {
			return false
		}
	}
	return true
}

func runSolver(ctx context.Context, s solverSpec, file string, timeoutSec, n int) ([]string, string) {
	procSem <- struct{}{}
	defer func() { <-procSem }()
	if ctx.Err() != nil {
		return parseVerdicts("", n), "cancelled"
	}
	release := acquireSlot()
	defer release()
	if ctx.Err() != nil {
		return parseVerdicts("", n), "cancelled"
	}
	args := s.Args(file, timeoutSec)
	cctx, cancel := context.WithTimeout(ctx, time.Duration(timeoutSec+5)*time.Second)
	defer cancel()
	cmd := exec.CommandContext(cctx, args[0], args[1:]...)
	var out bytes.Buffer
	cmd.Stdout = &out
	cmd.Stderr = &out
	cmd.Run()
	text := out.String()
	return parseVerdicts(text, n), text
}

// solveScript races the solvers on one script with n check-sats. If all is
// set, every solver runs to completion and definitive answers must agree.
func solveScript(dir, name, script string, n, timeoutSec int, all bool) solveResult {
	if !all {
		// stage 1: one solver with a short limit decides the (many) easy queries
		// with a third of the processes; stage 2 races all solvers on the rest
		t := timeoutSec
		if t > 3 {
			t = 3
		}
		start := time.Now()
		r := solveScriptWith(allSolvers[1:2], dir, name, script, n, t, false)
		if definitive(r.Verdicts) {
			return r
		}
		r2 := solveScriptWith(solvers, dir, name, script, n, timeoutSec, false)
		r2.Ms = time.Since(start).Milliseconds()
		return r2
	}
	return solveScriptWith(solvers, dir, name, script, n, timeoutSec, all)
}

func solveScriptWith(use []solverSpec, dir, name, script string, n, timeoutSec int, all bool) solveResult {
	file := filepath.Join(dir, sanitize(name)+".smt2")
	os.WriteFile(file, []byte(script), 0o644)
	start := time.Now()
	ctx, cancel := context.WithCancel(context.Background())
	defer cancel()
	type ans struct {
		solver string
		vs     []string
		out    string
	}
	ch := make(chan ans, len(use))
	for _, s := range use {
		go func(s solverSpec) {
			vs, out := runSolver(ctx, s, file, timeoutSec, n)
			ch <- ans{s.Name, vs, out}
		}(s)
	}
	res := solveResult{All: map[string][]string{}}
	var best *ans
	var outputs []string
	nDef := 0
	for range use {
		if nDef >= 1 && all {
			break
		}
		a := <-ch
		a2 := a
		res.All[a.solver] = a.vs
		o := a.out
		if len(o) > 3000 {
			o = o[:3000]
		}
		outputs = append(outputs, a.solver+": "+o)
		if definitive(a.vs) {
			if best == nil || !definitive(best.vs) {
				best = &a2
				res.Ms = time.Since(start).Milliseconds()
				if !all {
					cancel()
					break
				}
			} else {
				agree := true
				for i := range a.vs {
					if a.vs[i] != best.vs[i] {
						best.vs[i] = "disagree"
						agree = false
					}
				}
				if agree {
					// two independent solvers gave the same definitive answers: the
					// third (usually the one that times out) is not waited for
					cancel()
					nDef++
				}
			}
		} else if best == nil || !definitive(best.vs) {
			if best == nil || countDef(a.vs) > countDef(best.vs) {
				best = &a2
			}
		}
	}
	if best != nil {
		res.Verdicts = best.vs
		res.Solver = best.solver
		res.Output = best.out
	}
	if res.Ms == 0 {
		res.Ms = time.Since(start).Milliseconds()
	}
	if !definitive(res.Verdicts) {
		res.Output = strings.Join(outputs, "\n")
	}
	return res
}

func countDef(vs []string) int {
	n := 0
	for _, v := range vs {
		if v == "sat" || v == "unsat" {
			n++
		}
	}
	return n
}

// discharge decides all obligations. Every part (one path or call site) is one
// stand-alone query, so the solvers' preprocessing is not disabled by push/pop;
// parts run in parallel, bounded by the number of cores.
func discharge(obls []*Oblig, dir string, timeoutSec int, all bool) {
	var wg sync.WaitGroup
	defer func() {
		// table obligations are batched per table once their parts are normalised
		dischargeTables(obls, dir, timeoutSec, all)
	}()
	for _, o := range obls {
		var parts []OblPart
		for _, p := range o.Parts {
			if !p.NegGoal.IsFalse() {
				parts = append(parts, p)
			}
		}
		sort.SliceStable(parts, func(i, j int) bool { return parts[i].NAssume < parts[j].NAssume })
		o.Parts = parts
		o.Status = "unsat"
		if len(parts) == 0 {
			o.Solver = "trivial"
			continue
		}
		if o.Kind == "table" {
			continue // batched below
		}
		wg.Add(1)
		go func(o *Oblig) {
			defer wg.Done()
			results := make([]solveResult, len(o.Parts))
			var pw sync.WaitGroup
			for pi := range o.Parts {
				pw.Add(1)
				go func(pi int) {
					defer pw.Done()
					p := o.Parts[pi]
					script := o.Ctx.Script(p.NAssume, p.NegGoal, false)
					t := timeoutSec
					if o.Search && searchTimeoutSec > 0 {
						t = searchTimeoutSec
					}
					if !o.Search && !o.Ctx.NoSlice {
						// stage 0: the same goal without the nonlinear hypotheses
						thin := o.Ctx.ScriptThin(p.NAssume, p.NegGoal)
						if len(thin) < len(script) {
							t0 := t / 2
							if t0 < 3 {
								t0 = 3
							}
							// (thorough tier: both solvers must answer unsat)
							r0 := solveScriptWith(allSolvers[:2], dir, fmt.Sprintf("%s_p%d_thin", o.Name, pi), thin, 1, t0, all)
							if len(r0.Verdicts) == 1 && r0.Verdicts[0] == "unsat" {
								results[pi] = r0
								return
							}
						}
					}
					results[pi] = solveScript(dir, fmt.Sprintf("%s_p%d", o.Name, pi), script, 1, t, all)
				}(pi)
			}
			pw.Wait()
			solversUsed := map[string]bool{}
			for pi, r := range results {
				if r.Ms > o.Ms {
					o.Ms = r.Ms // parts run in parallel: report the slowest
				}
				solversUsed[r.Solver] = true
				v := "unknown"
				if len(r.Verdicts) == 1 {
					v = r.Verdicts[0]
				}
				if v == "unsat" {
					continue
				}
				if o.Status != "unsat" && !(v == "sat" && o.Status != "sat") {
					continue // keep the first failing part, but prefer a sat one
				}
				o.Status = v
				o.FailedPart = pi
				o.Output = r.Output
				o.Solver = r.Solver
			}
			if o.Status == "unsat" {
				var names []string
				for s := range solversUsed {
					names = append(names, s)
				}
				sort.Strings(names)
				o.Solver = strings.Join(names, ",")
			}
			if o.Status == "sat" && o.Kind != "cover" {
				o.CexVals = extractCex(o, dir, timeoutSec)
			}
		}(o)
	}
	wg.Wait()
}
