package main

import (
	"strconv"
	"os"
	"fmt"
	"go/ast"
	"go/token"
	"go/types"
	"sort"
	"strings"

	"golang.org/x/tools/go/ssa"
)

const maxInlineDepth = 8
const maxInlineBlocks = 60

// packages whose functions never modify the modelled heap (results are fresh
// or uninterpreted functions of the arguments)
var noEffectPkgs = map[string]bool{
	"fmt": true, "errors": true, "strings": true, "strconv": true, "encoding/hex": true, "math": true,
	"math/rand": true, "time": true, "os": true, "context": true, "bytes": true, "sort": true,
	"crypto/sha256": true, "crypto/rand": true, "unicode": true, "unicode/utf8": true, "regexp": true,
	"path/filepath": true, "math/big": true, "encoding/binary": true, "slices": true, "maps": true, "cmp": true,
	"sync/atomic": true, "reflect": true, "io": true, "bufio": true,
}

// deterministic library functions: result is an uninterpreted function of the arguments
var detFuncs = map[string]bool{
	"encoding/hex.EncodeToString": true, "strings.ReplaceAll": true, "strings.ToLower": true, "strings.ToUpper": true,
	"strings.TrimSpace": true, "strings.HasPrefix": true, "strings.HasSuffix": true, "strings.Contains": true,
	"strings.Split": true, "strings.Join": true, "strings.TrimPrefix": true, "strings.TrimSuffix": true,
	"strconv.Itoa": true, "strconv.FormatInt": true, "strconv.FormatUint": true, "strings.EqualFold": true,
	"strings.Compare": true, "strings.Index": true, "strings.Repeat": true, "strings.Fields": true,
	"strconv.Atoi": true, "strconv.ParseInt": true, "strconv.ParseUint": true, "encoding/hex.DecodeString": true,
	"errors.Is": true, "errors.As": false, "strings.Count": true, "strings.Replace": true, "strings.Trim": true,
	"strings.TrimLeft": true, "strings.TrimRight": true, "strings.Title": true, "strings.SplitN": true,
	"strings.LastIndex": true, "strings.IndexByte": true, "strings.ContainsRune": true, "strings.ContainsAny": true,
	"crypto/sha256.Sum256": true, "bytes.Equal": true, "math.Pow": true, "math.Floor": true, "math.Ceil": true,
	"strconv.Quote": true, "strconv.ParseFloat": true, "strconv.ParseBool": true,
	// time.Time / time.Duration arithmetic is a function of its operands (time.Now / time.Since are not)
	"bytes.Compare": true, "slices.Contains": true, "regexp.MatchString": true,
	"time.Sub": true, "time.Add": true, "time.IsZero": true, "time.Before": true, "time.After": true, "time.Equal": true,
	"time.Unix": true, "time.UnixNano": true, "time.Seconds": true, "time.Compare": true,
}

func (x *Exec) isModuleFunc(fn *ssa.Function) bool {
	if fn.Pkg == nil {
		// synthetic wrappers: look at the receiver / origin
		if fn.Synthetic != "" && fn.Signature.Recv() != nil {
			t := fn.Signature.Recv().Type()
			if p, ok := t.(*types.Pointer); ok {
				t = p.Elem()
			}
			if n, ok := t.(*types.Named); ok && n.Obj().Pkg() != nil {
				return strings.HasPrefix(n.Obj().Pkg().Path(), x.e.modulePath)
			}
		}
		return false
	}
	return strings.HasPrefix(fn.Pkg.Pkg.Path(), x.e.modulePath)
}

func funcPkgPath(fn *ssa.Function) string {
	if fn.Pkg != nil {
		return fn.Pkg.Pkg.Path()
	}
	if fn.Signature.Recv() != nil {
		t := fn.Signature.Recv().Type()
		if p, ok := t.(*types.Pointer); ok {
			t = p.Elem()
		}
		if n, ok := t.(*types.Named); ok && n.Obj().Pkg() != nil {
			return n.Obj().Pkg().Path()
		}
	}
	return ""
}

func funcRelName(fn *ssa.Function) string {
	if fn.Pkg != nil {
		return fn.RelString(fn.Pkg.Pkg)
	}
	s := fn.String()
	// strip package path qualifiers
	pp := funcPkgPath(fn)
	return strings.ReplaceAll(s, pp+".", "")
}

func (x *Exec) contractFor(fn *ssa.Function) *Contract {
	key := funcPkgPath(fn) + "::" + funcRelName(fn)
	ct := x.e.cs.Funcs[key]
	if ct != nil && !ct.IsIface && !x.e.usable(ct) {
		x.c.Note("contract of %s does not fit the function's current signature: ignored at this call site (callee followed or havocked)", ct.Name)
		return nil
	}
	return ct
}

func (x *Exec) ifaceContract(recvType types.Type, method string) *Contract {
	n, ok := recvType.(*types.Named)
	if !ok {
		if a, ok2 := recvType.(*types.Alias); ok2 {
			n, ok = types.Unalias(a).(*types.Named)
		}
		if !ok {
			return nil
		}
	}
	if n.Obj().Pkg() == nil {
		return nil
	}
	key := n.Obj().Pkg().Path() + "::" + n.Obj().Name() + "." + method
	return x.e.cs.Funcs[key]
}

func (x *Exec) canInline(fn *ssa.Function, depth int) bool {
	if len(fn.Blocks) == 0 || depth >= maxInlineDepth || len(fn.Blocks) > maxInlineBlocks {
		return false
	}
	if hasLoops(fn) {
		return false
	}
	for _, f := range x.stack {
		if f == fn {
			return false
		}
	}
	return true
}

// instrEffects: may-modify set of one instruction (used to cut loops).
func (x *Exec) instrEffects(ins ssa.Instruction, depth int) *Effects {
	eff := newEffects()
	switch i := ins.(type) {
	case *ssa.Store:
		x.addrEffects(i.Addr, eff)
	case *ssa.MapUpdate:
		eff.Keys["map:"+typeKey(i.Map.Type())+"|"] = true
	case *ssa.Call:
		eff.add(x.callEffects(&i.Call, depth))
	case *ssa.Defer:
		eff.add(x.callEffects(&i.Call, depth))
	case *ssa.Go:
		// not followed
	case *ssa.Select:
		for _, cs := range i.States {
			if n := chanName(cs.Chan); n != "" && cs.Dir == types.RecvOnly {
				eff.Ghosts["recv$"+n] = true
			}
		}
	case *ssa.UnOp:
		if n := chanName(i.X); n != "" && i.Op == token.ARROW {
			eff.Ghosts["recv$"+n] = true
		}
	case *ssa.Alloc, *ssa.MakeMap:
		// allocation initialises a fresh object only
	}
	return eff
}

func (x *Exec) addrEffects(a ssa.Value, eff *Effects) {
	path := ""
	for {
		switch v := a.(type) {
		case *ssa.FieldAddr:
			st := v.X.Type().Underlying().(*types.Pointer).Elem().Underlying().(*types.Struct)
			path = joinPath(st.Field(v.Field).Name(), path)
			a = v.X
			continue
		case *ssa.IndexAddr:
			switch u := v.X.Type().Underlying().(type) {
			case *types.Slice:
				eff.Keys["slice:"+typeKey(u.Elem())+"|"] = true
			case *types.Pointer:
				eff.Keys["slice:"+typeKey(u.Elem().Underlying().(*types.Array).Elem())+"|"] = true
			}
			return
		}
		break
	}
	pt, ok := a.Type().Underlying().(*types.Pointer)
	if !ok {
		eff.All = true
		return
	}
	eff.Keys[typeKey(pt.Elem())+"|"+path] = true
}

func (x *Exec) callEffects(cc *ssa.CallCommon, depth int) *Effects {
	eff := newEffects()
	if cc.IsInvoke() {
		if ct := x.ifaceContract(cc.Value.Type(), cc.Method.Name()); ct != nil {
			x.assignsEffects(ct, eff, nil)
			return eff
		}
		if cc.Method.Name() == "Error" && len(cc.Args) == 0 {
			return eff
		}
		x.unknownEffects(cc, eff)
		return eff
	}
	switch f := cc.Value.(type) {
	case *ssa.Builtin:
		switch f.Name() {
		case "copy":
			if s, ok := cc.Args[0].Type().Underlying().(*types.Slice); ok {
				eff.Keys["slice:"+typeKey(s.Elem())+"|"] = true
			}
		case "delete":
			eff.Keys["map:"+typeKey(cc.Args[0].Type())+"|"] = true
		}
		return eff
	case *ssa.Function:
		if x.lockOp(f) != "" {
			return eff
		}
		if ct := x.contractFor(f); ct != nil && !ct.Inline {
			if ct.Pure {
				return eff
			}
			x.assignsEffects(ct, eff, f)
			return eff
		}
		pp := funcPkgPath(f)
		if !x.isModuleFunc(f) {
			if noEffectPkgs[pp] || x.isLogPkg(pp) {
				return eff
			}
			x.unknownEffects(cc, eff)
			return eff
		}
		if x.isLogPkg(pp) {
			return eff
		}
		if x.canInline(f, depth) && depth < maxInlineDepth {
			if cached, ok := x.e.effCache[f]; ok {
				eff.add(cached)
				return eff
			}
			x.stack = append(x.stack, f)
			sub := newEffects()
			for _, b := range f.Blocks {
				for _, ins := range b.Instrs {
					sub.add(x.instrEffects(ins, depth+1))
				}
			}
			x.stack = x.stack[:len(x.stack)-1]
			x.e.effCache[f] = sub
			eff.add(sub)
			return eff
		}
		x.unknownEffects(cc, eff)
		return eff
	}
	// call through a function value
	if ct, _ := x.callbackContract(cc); ct != nil {
		x.assignsEffects(ct, eff, nil)
		return eff
	}
	x.unknownEffects(cc, eff)
	return eff
}

// callbackContract: the contract declared with `callback T.f` for a call through
// the function value loaded from field f of a struct of named type T; also
// returns the address expression of the struct (the contract's `recv`).
func (x *Exec) callbackContract(cc *ssa.CallCommon) (*Contract, ssa.Value) {
	u, ok := cc.Value.(*ssa.UnOp)
	if !ok || u.Op != token.MUL {
		return nil, nil
	}
	fa, ok := u.X.(*ssa.FieldAddr)
	if !ok {
		return nil, nil
	}
	pt, ok := fa.X.Type().Underlying().(*types.Pointer)
	if !ok {
		return nil, nil
	}
	n, ok := types.Unalias(pt.Elem()).(*types.Named)
	if !ok || n.Obj().Pkg() == nil {
		return nil, nil
	}
	stt, ok := n.Underlying().(*types.Struct)
	if !ok {
		return nil, nil
	}
	key := n.Obj().Pkg().Path() + "::" + n.Obj().Name() + "." + stt.Field(fa.Field).Name()
	return x.e.cs.Funcs[key], fa.X
}

func (x *Exec) isLogPkg(pp string) bool {
	return pp == x.e.modulePath+"/log" || pp == x.e.modulePath+"/isdev" || pp == x.e.modulePath+"/labels" || pp == "log"
}

func (x *Exec) unknownEffects(cc *ssa.CallCommon, eff *Effects) {
	seen := map[types.Type]bool{}
	args := cc.Args
	if cc.IsInvoke() {
		// receiver is an interface: its dynamic value is not modelled
	}
	for _, a := range args {
		t := a.Type()
		if mi, ok := a.(*ssa.MakeInterface); ok {
			t = mi.X.Type()
			a = mi.X
		}
		reachKeys(t, eff, seen)
		// a function literal handed to a callee that is not followed may be run by
		// it: everything reachable from the variables it captured may change
		if mc, ok := a.(*ssa.MakeClosure); ok {
			for _, b := range mc.Bindings {
				reachKeys(b.Type(), eff, seen)
			}
		}
	}
	if !cc.IsInvoke() {
		if _, ok := cc.Value.(*ssa.Function); !ok {
			// closure / func value: may touch anything it captured
			if mc, ok := cc.Value.(*ssa.MakeClosure); ok {
				for _, b := range mc.Bindings {
					reachKeys(b.Type(), eff, seen)
				}
			}
		}
	}
}

// assignsEffects translates a contract's assigns clause into key prefixes
// (coarse: the object type and field path, not the specific object).
func (x *Exec) assignsEffects(ct *Contract, eff *Effects, fn *ssa.Function) {
	for _, cl := range ct.Sets {
		eff.Ghosts[cl.Label] = true
	}
	if !ct.HasAssigns {
		// default: everything reachable from the parameters
		var sig *types.Signature
		if fn != nil {
			sig = fn.Signature
		} else {
			sig = x.ifaceMethodSig(ct)
		}
		if sig == nil {
			eff.All = true
			return
		}
		seen := map[types.Type]bool{}
		if sig.Recv() != nil && fn != nil {
			reachKeys(sig.Recv().Type(), eff, seen)
		}
		for i := 0; i < sig.Params().Len(); i++ {
			reachKeys(sig.Params().At(i).Type(), eff, seen)
		}
		// ghosts the postconditions speak about are part of the default frame
		for _, cl := range ct.Ens {
			ast.Inspect(cl.Expr, func(n ast.Node) bool {
				if se, ok := n.(*ast.SelectorExpr); ok {
					if id, ok := se.X.(*ast.Ident); ok && id.Name == "ghost" {
						eff.Ghosts[se.Sel.Name] = true
					}
				}
				return true
			})
		}
		return
	}
	for _, a := range ct.Assigns {
		x.assignExprEffects(ct, a, eff, fn)
	}
}

func (x *Exec) assignExprEffects(ct *Contract, a ast.Expr, eff *Effects, fn *ssa.Function) {
	// ghost.X
	if se, ok := a.(*ast.SelectorExpr); ok {
		if id, ok := se.X.(*ast.Ident); ok && id.Name == "ghost" {
			eff.Ghosts[se.Sel.Name] = true
			return
		}
	}
	// p.F.G or p.* : resolve the static type of the root parameter
	var path []string
	e := a
	star := false
	mapIndex := false
	if ix, ok := e.(*ast.IndexExpr); ok {
		// m[k]: the effect is on the map type of m
		mapIndex = true
		e = ix.X
	}
	for {
		switch v := e.(type) {
		case *ast.SelectorExpr:
			path = append([]string{v.Sel.Name}, path...)
			e = v.X
			continue
		case *ast.StarExpr: // *p : whole object
			star = true
			e = v.X
			continue
		case *ast.ParenExpr:
			e = v.X
			continue
		}
		break
	}
	id, ok := e.(*ast.Ident)
	if !ok {
		eff.All = true
		return
	}
	t := x.paramType(ct, fn, id.Name)
	if t == nil {
		eff.All = true
		return
	}
	// walk the path through pointers
	cur := t
	for len(path) > 0 {
		pt, ok := cur.Underlying().(*types.Pointer)
		var stt *types.Struct
		var obj types.Type
		if ok {
			obj = pt.Elem()
			stt, _ = obj.Underlying().(*types.Struct)
		}
		if stt == nil {
			eff.All = true
			return
		}
		// consume fields while they are embedded struct values
		p := ""
		for len(path) > 0 {
			var f *types.Var
			for k := 0; k < stt.NumFields(); k++ {
				if stt.Field(k).Name() == path[0] {
					f = stt.Field(k)
				}
			}
			if f == nil {
				eff.All = true
				return
			}
			p = joinPath(p, f.Name())
			path = path[1:]
			cur = f.Type()
			if s2, ok := cur.Underlying().(*types.Struct); ok && len(path) > 0 {
				stt = s2
				continue
			}
			break
		}
		if len(path) == 0 {
			if mapIndex {
				if _, isMap := cur.Underlying().(*types.Map); isMap {
					eff.Keys["map:"+typeKey(cur)+"|"] = true
					return
				}
				eff.All = true
				return
			}
			eff.Keys[typeKey(obj)+"|"+p] = true
			return
		}
	}
	if mapIndex {
		if _, isMap := cur.Underlying().(*types.Map); isMap {
			eff.Keys["map:"+typeKey(cur)+"|"] = true
			return
		}
	}
	if star {
		if pt, ok := cur.Underlying().(*types.Pointer); ok {
			eff.Keys[typeKey(pt.Elem())+"|"] = true
			return
		}
	}
	eff.All = true
}

func (x *Exec) ifaceMethodSig(ct *Contract) *types.Signature {
	parts := strings.SplitN(ct.Name, ".", 2)
	if len(parts) != 2 {
		return nil
	}
	tp := ct.PkgPath
	if ct.TypePkg != "" {
		tp = ct.TypePkg
	}
	pkg := x.e.typesPkg(tp)
	if pkg == nil {
		return nil
	}
	obj := pkg.Scope().Lookup(parts[0])
	if obj == nil {
		return nil
	}
	if stt, isStruct := obj.Type().Underlying().(*types.Struct); isStruct {
		// callback contract: the field's function type
		for i := 0; i < stt.NumFields(); i++ {
			if stt.Field(i).Name() == parts[1] {
				sig, _ := stt.Field(i).Type().Underlying().(*types.Signature)
				return sig
			}
		}
		return nil
	}
	it, ok := obj.Type().Underlying().(*types.Interface)
	if !ok {
		return nil
	}
	for i := 0; i < it.NumMethods(); i++ {
		if it.Method(i).Name() == parts[1] {
			return it.Method(i).Type().(*types.Signature)
		}
	}
	return nil
}

func (x *Exec) paramType(ct *Contract, fn *ssa.Function, name string) types.Type {
	if fn != nil {
		for _, p := range fn.Params {
			if p.Name() == name {
				return p.Type()
			}
		}
		return nil
	}
	sig := x.ifaceMethodSig(ct)
	if sig == nil {
		return nil
	}
	for i := 0; i < sig.Params().Len(); i++ {
		if sig.Params().At(i).Name() == name {
			return sig.Params().At(i).Type()
		}
	}
	return nil
}

// ---- calls ----

func (x *Exec) call(fr *frame, st *State, i *ssa.Call, reach Term) Val {
	cc := &i.Call
	var args []Val
	for _, a := range cc.Args {
		args = append(args, x.val(fr, a))
	}
	res := x.callCommon(fr, st, cc, args, reach, i.Pos().IsValid(), x.pos(i.Pos()))
	return x.packResults(res, i.Type())
}

func (x *Exec) packResults(res []Val, t types.Type) Val {
	if tp, ok := t.(*types.Tuple); ok {
		out := Val{T: t}
		for k, r := range res {
			r = x.scalarize(x.materialize(r, tp.At(k).Type()))
			out.L = append(out.L, r.L...)
		}
		return out
	}
	if len(res) == 0 {
		return Val{T: t}
	}
	r := res[0]
	if r.A != nil {
		return r
	}
	return x.materialize(r, t)
}

func (x *Exec) freshResults(sig *types.Signature, tag string) []Val {
	var out []Val
	for k := 0; k < sig.Results().Len(); k++ {
		out = append(out, freshVal(x.c, fmt.Sprintf("%s_r%d", tag, k), sig.Results().At(k).Type()))
	}
	return out
}

func (x *Exec) callCommon(fr *frame, st *State, cc *ssa.CallCommon, args []Val, reach Term, _ bool, where string) []Val {
	sig := cc.Signature()
	saveCC, saveFn, saveArgs := x.curCC, x.curFn, x.curArgs
	x.curCC, x.curFn, x.curArgs = cc, fr.fn, args
	defer func() { x.curCC, x.curFn, x.curArgs = saveCC, saveFn, saveArgs }()
	if cc.IsInvoke() {
		recv := x.val(fr, cc.Value)
		mname := cc.Method.Name()
		if x.chain != nil && mname == "Execute" && x.chainPos+1 < len(x.chain) && strings.HasSuffix(typeKey(cc.Value.Type()), ".Action") {
			// state unit: the wrapped action is known from the evaluated table
			callee := x.chain[x.chainPos+1]
			x.chainPos++
			defer func() { x.chainPos-- }()
			recvArg := x.chainReceiver(callee, recv, reach)
			full := append([]Val{recvArg}, args...)
			if len(callee.Blocks) > 0 && !hasLoops(callee) {
				x.inlined[callee.String()] = true
				return x.inline(callee, full, nil, st, reach, fr.depth+1)
			}
			x.havocCall(st, cc, "wrapped action not followable: "+callee.String())
			return x.freshResults(sig, "next")
		}
		if ct := x.ifaceContract(cc.Value.Type(), mname); ct != nil {
			return x.applyContract(ct, nil, sig, recv, args, st, reach, where)
		}
		if mname == "Error" && sig.Params().Len() == 0 {
			return []Val{{T: types.Typ[types.String], L: []Term{x.c.App("errtext", SStr, recv.L[0], recv.L[1])}}}
		}
		if mname == "String" && sig.Params().Len() == 0 && sig.Results().Len() == 1 {
			return []Val{{T: types.Typ[types.String], L: []Term{x.c.App("stringer", SStr, recv.L[0], recv.L[1])}}}
		}
		if res, ok := x.devirtualize(fr, st, cc, recv, args, reach); ok {
			return res
		}
		x.havocCall(st, cc, "invoke "+typeKey(cc.Value.Type())+"."+mname)
		return x.freshResults(sig, "inv_"+mname)
	}
	switch f := cc.Value.(type) {
	case *ssa.Builtin:
		return x.builtin(fr, st, f, cc, args, reach, where)
	case *ssa.Function:
		return x.staticCall(fr, st, f, cc, args, reach, where)
	case *ssa.MakeClosure:
		if fn, ok := f.Fn.(*ssa.Function); ok && x.canInline(fn, fr.depth+1) {
			var fvs []Val
			for _, b := range f.Bindings {
				fvs = append(fvs, x.val(fr, b))
			}
			return x.inline(fn, args, fvs, st, reach, fr.depth+1)
		}
	}
	if ct, recvAddr := x.callbackContract(cc); ct != nil {
		return x.applyContract(ct, nil, sig, x.val(fr, recvAddr), args, st, reach, where)
	}
	if n, ok := cc.Value.Type().(*types.Named); ok && n.Obj().Pkg() != nil && n.Obj().Pkg().Path() == "context" && n.Obj().Name() == "CancelFunc" {
		// calling a context.CancelFunc cancels the context (and every timer armed with
		// it): recorded in the ghost `cancelCalled` when a contract file declares it
		if gv, ok := st.ghost["cancelCalled"]; ok && len(gv.L) == 1 {
			st.ghost["cancelCalled"] = Val{T: gv.T, L: []Term{Ite(reach, TTrue, gv.L[0])}}
		}
		return x.freshResults(sig, "cancel")
	}
	x.havocCall(st, cc, "call through function value in "+fr.fn.String())
	return x.freshResults(sig, "fv")
}

func (x *Exec) havocCall(st *State, cc *ssa.CallCommon, what string) {
	x.noteEscapes(x.curArgs)
	eff := newEffects()
	x.unknownEffects(cc, eff)
	if eff.All || len(eff.Keys) > 0 {
		x.havocEffectsK(st, x.protect(eff), "call", true)
	}
	x.havocked[what] = true
}

func (x *Exec) staticCall(fr *frame, st *State, f *ssa.Function, cc *ssa.CallCommon, args []Val, reach Term, where string) []Val {
	sig := f.Signature
	full := f.String()
	pp := funcPkgPath(f)
	if op := x.lockOp(f); op != "" {
		x.lockCall(fr, st, op, args, reach, where)
		return x.freshResults(sig, "lock")
	}
	if r, ok := x.special(fr, st, f, full, args, reach); ok {
		return r
	}
	x.e.ensureBuilt(f)
	if os.Getenv("GOVC_DBG") != "" && strings.Contains(full, os.Getenv("GOVC_DBG")) {
		fmt.Fprintf(os.Stderr, "DBG staticCall %s key=%s::%s contract=%v\n", full, funcPkgPath(f), funcRelName(f), x.contractFor(f) != nil)
	}
	if ct := x.contractFor(f); ct != nil {
		switch {
		case ct.Inline && x.canInline(f, fr.depth+1):
			return x.inline(f, args, nil, st, reach, fr.depth+1)
		case ct.Pure:
			return x.pureCall(f, args, st)
		case ct.Havoc:
			x.havocCall(st, cc, "declared havoc: "+full)
			return x.freshResults(sig, "hv")
		default:
			return x.applyContract(ct, f, sig, Val{}, args, st, reach, where)
		}
	}
	if !x.isModuleFunc(f) {
		if detFuncs[pp+"."+f.Name()] {
			return x.pureCall(f, args, st)
		}
		if len(f.Blocks) > 0 && x.e.inlineDeps[pp] && x.canInline(f, fr.depth+1) {
			x.inlined[full] = true
			return x.inline(f, args, nil, st, reach, fr.depth+1)
		}
		if strings.HasPrefix(f.Name(), "Get") && f.Signature.Recv() != nil && f.Signature.Params().Len() == 0 {
			// generated-getter convention (protobuf): GetX() on *T returns the field X
			// of the same type, or the zero value for a nil receiver
			if r, ok := x.getterCall(f, args, st, reach); ok {
				return r
			}
			// other library getters: deterministic function of the receiver
			return x.pureCall(f, args, st)
		}
		if noEffectPkgs[pp] || x.isLogPkg(pp) {
			x.noteEscapes(args)
			return x.freshResults(sig, sanitize(f.Name()))
		}
		x.havocCall(st, cc, "external "+full)
		return x.freshResults(sig, sanitize(f.Name()))
	}
	if x.isLogPkg(pp) {
		return x.freshResults(sig, sanitize(f.Name()))
	}
	if x.canInline(f, fr.depth+1) {
		x.inlined[full] = true
		return x.inline(f, args, nil, st, reach, fr.depth+1)
	}
	x.havocCall(st, cc, "module function without contract (not inlinable): "+full)
	return x.freshResults(sig, sanitize(f.Name()))
}

// special-cases library functions with a little known semantics.
func (x *Exec) special(fr *frame, st *State, f *ssa.Function, full string, args []Val, reach Term) ([]Val, bool) {
	if o := f.Origin(); o != nil && o.String() == "slices.Contains" && len(args) == 2 {
		if r, ok := x.sliceContains(st, args[0], args[1]); ok {
			return []Val{r}, true
		}
	}
	switch full {
	case "errors.New":
		e := freshVal(x.c, "err", f.Signature.Results().At(0).Type())
		x.c.Assume(Not(Eq(e.L[0], BVLit(0, 32))))
		return []Val{e}, true
	case "fmt.Errorf":
		// a non-nil error whose text is a function of the format and the operands
		e := freshVal(x.c, "err", f.Signature.Results().At(0).Type())
		x.c.Assume(Not(Eq(e.L[0], BVLit(0, 32))))
		if ts, n, ok := x.fmtOperands(st, args, reach); ok {
			e.L[1] = x.c.App(fmt.Sprintf("errorf_%d_a%d", n, len(ts)), SBV(64), ts...)
		} else if len(args) > 1 {
			// unknown number of operands: the text may depend on all of them
			all := append(x.allLeaves(args), x.c.Named("TAINT_operands_of_unknown_arity", SBV(64)))
			sig := ""
			for _, t := range all {
				sig += string(t.Sort)
			}
			e.L[1] = x.c.App("errorf_any_"+sanitize(sig), SBV(64), all...)
		}
		return []Val{e}, true
	case "fmt.Sprintf", "fmt.Sprint":
		// with a known number of operands the text is a function of the format and the operands
		if full == "fmt.Sprintf" {
			if ts, n, ok := x.fmtOperands(st, args, reach); ok {
				name := fmt.Sprintf("sprintf_%d", n)
				if int64(len(ts)) != 1+2*n {
					name = fmt.Sprintf("sprintf_%d_a%d", n, len(ts)) // extra dependency markers
				}
				return []Val{{T: types.Typ[types.String], L: []Term{x.c.App(name, SStr, ts...)}}}, true
			}
		}
		return []Val{freshVal(x.c, "sprintf", types.Typ[types.String])}, true
	case "errors.Is":
		a, b := args[0], args[1]
		r := x.pureCall(f, args, st)[0].L[0] // same uninterpreted function the specs use
		// errors.Is(nil, x) is false for non-nil x; errors.Is(e, e) is true
		x.c.Assume(Imp(And(Eq(a.L[0], BVLit(0, 32)), Not(Eq(b.L[0], BVLit(0, 32)))), Not(r)))
		x.c.Assume(Imp(And(Eq(a.L[0], b.L[0]), Eq(a.L[1], b.L[1])), r))
		return []Val{{T: types.Typ[types.Bool], L: []Term{r}}}, true
	}
	return nil, false
}

// pureCall: result is an uninterpreted function of the argument leaves and of
// the heap arrays type-reachable from the arguments.
func (x *Exec) pureCall(f *ssa.Function, args []Val, st *State) []Val {
	if f.String() == "strconv.Atoi" && len(args) == 1 && len(args[0].L) == 1 {
		// a library function applied to a literal is evaluated
		if lit, ok := x.c.StrLitValue(args[0].L[0]); ok {
			if n, err := strconv.Atoi(lit); err == nil {
				return []Val{{T: types.Typ[types.Int], L: []Term{BVLit(int64(n), 64)}},
					zeroVal(x.c, f.Signature.Results().At(1).Type())}
			}
		}
	}
	if f.String() == "strconv.Atoi" && !x.inAtoiAxioms {
		// ... and what it yields for the numeric literals of the program is known
		x.inAtoiAxioms = true
		for _, lit := range x.c.StrLits() {
			n, err := strconv.Atoi(lit)
			if err != nil || x.atoiAxiom[lit] {
				continue
			}
			if x.atoiAxiom == nil {
				x.atoiAxiom = map[string]bool{}
			}
			x.atoiAxiom[lit] = true
			r := x.pureCallRaw(f, []Val{{T: types.Typ[types.String], L: []Term{x.c.StrLit(lit)}}}, st)
			z := zeroVal(x.c, f.Signature.Results().At(1).Type())
			x.c.Assume(Eq(r[0].L[0], BVLit(int64(n), 64)))
			for i := range z.L {
				x.c.Assume(Eq(r[1].L[i], z.L[i]))
			}
		}
		x.inAtoiAxioms = false
	}
	return x.pureCallRaw(f, args, st)
}

func (x *Exec) pureCallRaw(f *ssa.Function, args []Val, st *State) []Val {
	byValue, noHeap := false, false
	if ct := x.e.cs.Funcs[funcPkgPath(f)+"::"+funcRelName(f)]; ct != nil {
		byValue, noHeap = ct.PureValue, ct.PureRef
		if noHeap {
			x.c.Note("%s is treated as a function of its argument values only (objects assumed immutable)", f.String())
		}
	}
	var ts []Term
	pts := sigParamTypes(f.Signature)
	// the heap footprint is the set of heap arrays type-reachable from the
	// parameters, enumerated statically (so that two applications of the same
	// function always have the same arity, whatever was touched before)
	var keys []heapKeySort
	seenK := map[string]bool{}
	for k, a := range args {
		if pt, isPtr := pts[k].Underlying().(*types.Pointer); isPtr && byValue {
			// `purevalue`: a pointer parameter stands for the value it points to
			var content Val
			if a.T != nil && types.Identical(a.T, pt.Elem()) {
				content = a // a spec passed the value itself
			} else {
				content = x.load(st, x.toAddr(a), TTrue)
			}
			content = x.scalarize(content)
			ts = append(ts, content.L...)
			continue
		}
		a = x.scalarize(x.materialize(a, pts[k]))
		ts = append(ts, a.L...)
		if noHeap {
			continue
		}
		if sl, isSlice := pts[k].Underlying().(*types.Slice); isSlice && len(a.L) == 3 && scalarElems(sl.Elem()) {
			// a slice of scalars: the footprint is this slice's own content, not the
			// whole backing-store heap (stable when unrelated slices change)
			for _, l := range shape(sl.Elem()) {
				srt := SArr(SBV(64), SArr(SBV(64), l.Sort))
				ts = append(ts, Select(x.heapGet(st, sliceKey(sl.Elem(), l.Path), srt), a.L[0]))
			}
			continue
		}
		staticKeys(pts[k], &keys, seenK, 0)
	}
	sort.Slice(keys, func(i, j int) bool { return keys[i].key < keys[j].key })
	for _, ks := range keys {
		ts = append(ts, x.heapGet(st, ks.key, ks.srt))
	}
	var out []Val
	sig := f.Signature
	for k := 0; k < sig.Results().Len(); k++ {
		rt := sig.Results().At(k).Type()
		sh := shape(rt)
		v := Val{T: rt, L: make([]Term, len(sh))}
		for j, l := range sh {
			// the heap arrays passed depend on which heap keys are known so far, so the
			// arity is part of the symbol (calls with different footprints are unrelated)
			v.L[j] = x.c.App(fmt.Sprintf("pure_%s_%d_%s_a%d", f.String(), k, l.Path, len(ts)), l.Sort, ts...)
		}
		if sl, isSlice := rt.Underlying().(*types.Slice); isSlice && len(v.L) == 3 && scalarElems(sl.Elem()) && x.specDepth == 0 {
			// the content of a slice produced by a deterministic function stays what it is
			// until the slice is handed to a call that is not followed (see havocEffects)
			for _, l := range shape(sl.Elem()) {
				known := false
				for _, la := range x.localArrs {
					if la.ref == v.L[0].S {
						known = true
					}
				}
				if !known {
					x.localArrs = append(x.localArrs, localArr{key: sliceKey(sl.Elem(), l.Path),
						srt: SArr(SBV(64), SArr(SBV(64), l.Sort)), id: v.L[0], ref: v.L[0].S})
				}
			}
		}
		out = append(out, v)
	}
	return out
}

func (r *heapReg) sorts2() map[string]bool {
	m := map[string]bool{}
	for k := range r.sorts {
		m[k] = true
	}
	return m
}

// inline symbolically executes the callee in the current state.
func (x *Exec) inline(f *ssa.Function, args []Val, fvs []Val, st *State, reach Term, depth int) []Val {
	rets := x.runFunc(f, args, fvs, st, reach, depth, false, nil)
	var conds []Term
	var sts []*State
	var live []Ret
	for _, r := range rets {
		if r.panicked {
			continue
		}
		live = append(live, r)
		conds = append(conds, r.reach)
		sts = append(sts, r.st)
	}
	sig := f.Signature
	if len(live) == 0 {
		// callee never returns normally
		x.assume(Not(reach))
		return x.freshResults(sig, "noret")
	}
	ns := x.mergeStates(conds, sts)
	*st = *ns
	// the callee returns normally: one of the return paths is taken
	x.assume(Imp(reach, Or(conds...)))
	var out []Val
	for k := 0; k < sig.Results().Len(); k++ {
		acc := live[0].vals[k]
		for j := 1; j < len(live); j++ {
			acc = iteVal(live[j].reach, live[j].vals[k], acc)
		}
		for j := range acc.L {
			acc.L[j] = x.c.Define("ret", acc.L[j])
		}
		acc.T = sig.Results().At(k).Type()
		out = append(out, acc)
	}
	return out
}

func (x *Exec) runDefers(fr *frame, st *State, reach Term) {
	for k := len(fr.defers) - 1; k >= 0; k-- {
		d := fr.defers[k]
		cond := And(reach, d.cond)
		if cond.IsFalse() {
			continue
		}
		cc := &d.instr.Call
		// run on a copy and merge, since the defer may not have been registered on this path
		sub := st.clone()
		// temporarily bind values for the call
		x.callWithArgs(fr, sub, cc, d.args, cond)
		if d.cond.S == reach.S || d.cond.IsTrue() {
			*st = *sub
		} else {
			m := x.mergeStates([]Term{Not(d.cond), d.cond}, []*State{st, sub})
			*st = *m
		}
	}
}

func (x *Exec) callWithArgs(fr *frame, st *State, cc *ssa.CallCommon, args []Val, reach Term) []Val {
	return x.callCommon(fr, st, cc, args, reach, false, "defer")
}

func (x *Exec) builtin(fr *frame, st *State, f *ssa.Builtin, cc *ssa.CallCommon, args []Val, reach Term, where string) []Val {
	intV := func(t Term) Val { return Val{T: types.Typ[types.Int], L: []Term{t}} }
	switch f.Name() {
	case "len":
		a := args[0]
		switch u := cc.Args[0].Type().Underlying().(type) {
		case *types.Basic:
			if a.C != nil {
				a = x.constVal(a.C, types.Typ[types.String])
			}
			return []Val{intV(x.c.App("strlen", SBV(64), a.L[0]))}
		case *types.Slice:
			return []Val{intV(a.L[1])}
		case *types.Map:
			n := x.c.App("maplen_"+typeKey(cc.Args[0].Type()), SBV(64), a.L[0], x.mapHasArr(st, cc.Args[0].Type()))
			x.c.Assume(Op("bvsge", SBool, n, BVLit(0, 64)))
			return []Val{intV(n)}
		case *types.Pointer:
			return []Val{intV(BVLit(u.Elem().Underlying().(*types.Array).Len(), 64))}
		case *types.Array:
			return []Val{intV(BVLit(u.Len(), 64))}
		case *types.Chan:
			return []Val{freshVal(x.c, "chanlen", types.Typ[types.Int])}
		}
	case "cap":
		if _, ok := cc.Args[0].Type().Underlying().(*types.Slice); ok {
			return []Val{intV(args[0].L[2])}
		}
		return []Val{freshVal(x.c, "cap", types.Typ[types.Int])}
	case "append":
		if sl, ok := cc.Args[0].Type().Underlying().(*types.Slice); ok && carrierType(sl.Elem()) && len(args) > 1 {
			// the appended references now live in the destination's backing store
			x.noteEscapes(args[1:])
		}
		if r, ok := x.preciseAppend(st, cc, args, reach); ok {
			return []Val{r}
		}
		s := args[0]
		rt := cc.Args[0].Type()
		id := x.freshSliceID(st)
		var add Term
		if len(args) > 1 {
			if isString(cc.Args[1].Type()) {
				add = x.c.App("strlen", SBV(64), args[1].L[0])
			} else {
				add = args[1].L[1]
			}
		} else {
			add = BVLit(0, 64)
		}
		n := Op("bvadd", SBV(64), s.L[1], add)
		cp := x.c.Fresh("cap", SBV(64))
		x.c.Assume(Op("bvsle", SBool, n, cp))
		return []Val{{T: rt, L: []Term{id, n, cp}}}
	case "copy":
		if sl, ok := cc.Args[0].Type().Underlying().(*types.Slice); ok && carrierType(sl.Elem()) && len(args) > 1 {
			x.noteEscapes(args[1:])
		}
		if sl, ok := cc.Args[0].Type().Underlying().(*types.Slice); ok {
			if len(args) > 0 && len(args[0].L) == 3 {
				// copy writes into the destination's backing store only: that store
				// gets arbitrary content, every other store keeps its own
				x.inst++
				for _, l := range shape(sl.Elem()) {
					key := sliceKey(sl.Elem(), l.Path)
					srt := SArr(SBV(64), SArr(SBV(64), l.Sort))
					h := x.heapGet(st, key, srt)
					row := x.c.Fresh(fmt.Sprintf("copyrow_%d", x.inst), SArr(SBV(64), l.Sort))
					x.heapSet(st, key, Store(h, args[0].L[0], row))
				}
			} else {
				eff := newEffects()
				eff.Keys["slice:"+typeKey(sl.Elem())+"|"] = true
				x.havocEffects(st, eff, "copy")
			}
		}
		return []Val{freshVal(x.c, "copied", types.Typ[types.Int])}
	case "delete":
		mt := cc.Args[0].Type()
		kv := x.scalarize(x.materialize(args[1], mt.Underlying().(*types.Map).Key()))
		if len(kv.L) == 1 {
			x.mapDelete(st, mt, args[0].L[0], kv.L[0])
		}
		return nil
	case "panic":
		return nil
	case "print", "println", "close", "clear":
		return nil
	case "recover":
		return []Val{zeroVal(x.c, f.Type().(*types.Signature).Results().At(0).Type())}
	case "min", "max":
		t := cc.Signature().Results().At(0).Type()
		acc := x.materialize(args[0], t)
		for _, a := range args[1:] {
			b := x.materialize(a, t)
			op := "bvult"
			if isSigned(t) {
				op = "bvslt"
			}
			var c Term
			if f.Name() == "min" {
				c = Op(op, SBool, b.L[0], acc.L[0])
			} else {
				c = Op(op, SBool, acc.L[0], b.L[0])
			}
			acc = iteVal(c, b, acc)
		}
		return []Val{acc}
	case "ssa:wrapnilchk":
		return []Val{args[0]}
	}
	x.c.Note("builtin %s abstracted", f.Name())
	return x.freshResults(cc.Signature(), f.Name())
}

func (x *Exec) mapHasArr(st *State, mt types.Type) Term {
	_, has, _, ok := x.mapParts(st, mt)
	if !ok {
		return BVLit(0, 8)
	}
	return has
}

// ---- modular call: apply a contract ----

func (x *Exec) applyContract(ct *Contract, f *ssa.Function, sig *types.Signature, recv Val, args []Val, st *State, reach Term, where string) []Val {
	x.usedContracts[ct.PkgPath+"::"+ct.Name] = true
	x.noteEscapes(args)
	x.noteEscapes([]Val{recv})
	names := map[string]Val{}
	if f != nil && len(f.Params) == 0 && len(args) > 0 {
		// function of a dependency (no SSA body): names from the signature
		k := 0
		if r := f.Signature.Recv(); r != nil {
			names["recv"] = x.materialize(args[0], r.Type())
			if r.Name() != "" && r.Name() != "_" {
				names[r.Name()] = names["recv"]
			}
			k = 1
		}
		for i := 0; i < f.Signature.Params().Len() && k+i < len(args); i++ {
			p := f.Signature.Params().At(i)
			v := x.materialize(args[k+i], p.Type())
			names[fmt.Sprintf("p%d", i)] = v
			if p.Name() != "" && p.Name() != "_" {
				names[p.Name()] = v
			}
		}
	} else if f != nil {
		for k, p := range f.Params {
			names[p.Name()] = x.materialize(args[k], p.Type())
		}
		if f.Signature.Recv() != nil && len(args) > 0 {
			if _, shadow := names["recv"]; !shadow {
				names["recv"] = names[f.Params[0].Name()]
			}
		}
	} else {
		for k := 0; k < sig.Params().Len(); k++ {
			p := sig.Params().At(k)
			n := p.Name()
			if n == "" || n == "_" {
				n = fmt.Sprintf("p%d", k)
			}
			names[n] = x.materialize(args[k], p.Type())
			names[fmt.Sprintf("p%d", k)] = names[n]
		}
		names["recv"] = recv
		// environment contracts may refer to the calling action's parameters
		// (dynamic scope): the top-level function's params, unless shadowed
		if x.topFrame != nil {
			for _, p := range x.top.Params {
				if _, shadow := names[p.Name()]; !shadow {
					names[p.Name()] = x.topFrame.vals[p]
				}
			}
			x.addFreeVarNames(names, st, reach)
		}
	}
	pkg := x.e.typesPkg(ct.PkgPath)
	pre := st.clone()
	env := &specEnv{x: x, names: names, st: st, old: pre, pkg: pkg}
	// clauses of a function contract tagged `@in:name` are written against the
	// calling top-level function's parameters as well (explicit dynamic scope)
	scoped := names
	if f != nil && x.topFrame != nil {
		scoped = map[string]Val{}
		for k, v := range names {
			scoped[k] = v
		}
		for _, p := range x.top.Params {
			if _, shadow := scoped[p.Name()]; !shadow {
				scoped[p.Name()] = x.topFrame.vals[p]
			}
		}
		x.addFreeVarNames(scoped, st, reach)
	}
	for k, cl := range ct.Req {
		if !x.inScope(cl) {
			continue
		}
		env := env
		if len(cl.Scope) > 0 && f != nil {
			env = &specEnv{x: x, names: scoped, st: st, old: pre, pkg: pkg}
		}
		if cl.Kind == "typeinv" {
			x.c.Note("representation invariant assumed, not checked at call sites: %s: %s", ct.Name, cl.Text)
			continue
		}
		g := x.evalBool(cl.Expr, env, reach)
		callee := ct.Name
		name := fmt.Sprintf("%s#call[%s].pre[%s]", x.fname(), callee, clauseLabel(cl, k))
		props := clauseProps(cl, ct)
		cex := append([]CexTerm{}, x.cexBase...)
		for n, v := range names {
			cex = append(cex, x.cexOf("callarg."+n, v, st, 0)...)
		}
		x.addObl(name, "pre", cl.Text, props, OblPart{NegGoal: And(reach, Not(g)), NAssume: len(x.c.Assumes), Where: where, Cex: cex}, false)
		// after the call the precondition may be assumed (it held, or the obligation fails)
		x.assume(Imp(reach, g))
	}
	// havoc
	eff := newEffects()
	x.assignsEffects(ct, eff, f)
	if ct.HasAssigns {
		x.havocAssigns(ct, f, env, st)
	} else if eff.All || len(eff.Keys) > 0 {
		x.havocEffectsK(st, x.protect(eff), "ct", true)
	}
	for g := range eff.Ghosts {
		if gv, ok := st.ghost[g]; ok {
			st.ghost[g] = freshVal(x.c, "G_"+g, gv.T)
		}
	}
	res := x.freshResults(sig, sanitize(ct.Name))
	if ct.Fresh {
		// an allocating library function: slice results have backing stores of their own
		for k := range res {
			if _, isSlice := res[k].T.Underlying().(*types.Slice); isSlice && len(res[k].L) == 3 {
				res[k].L[0] = x.freshSliceID(st)
			}
		}
	}
	// the callee's universally quantified constants are instantiated with the
	// caller's quantified constants and with the call's arguments of the same type
	for _, inst := range x.forallInstances(ct, names) {
		env2 := &specEnv{x: x, names: inst, st: st, old: pre, pkg: pkg, results: res, sig: sig}
		for _, cl := range ct.Ens {
			if !x.inScope(cl) {
				continue
			}
			if mentionsUnbound(cl.Expr, ct.Forall, inst) {
				continue
			}
			g := x.evalBool(cl.Expr, env2, reach)
			x.assume(Imp(reach, g))
		}
	}
	// ghost code of the callee (`sets ghost.X = expr`), evaluated in the post-state
	for _, cl := range ct.Sets {
		env2 := &specEnv{x: x, names: names, st: st, old: pre, pkg: pkg, results: res, sig: sig}
		if gv, ok := st.ghost[cl.Label]; ok {
			st.ghost[cl.Label] = x.materialize(x.evalSpec(cl.Expr, env2, reach), gv.T)
		}
	}
	if wantSiteCovers && x.specDepth == 0 {
		n := fmt.Sprintf("%s#cover[after %s @%s #%d]", x.fname(), ct.Name, where, len(x.siteCovers))
		x.siteCovers = append(x.siteCovers, &Oblig{Name: n, Kind: "cover", Ctx: x.c, Func: x.top.String(),
			Text:  "the continuation of this contract application is reachable (its requires and ensures are not contradictory here)",
			Parts: []OblPart{{NegGoal: reach, NAssume: len(x.c.Assumes)}}})
	}
	return res
}

// wantSiteCovers: also check, per contract application, that the path goes on
// (thorough tier / GOVC_SITE_COVERS=1). Diagnostic: reported, not fatal.
var wantSiteCovers = false

// inScope: a clause tagged `@in:name` applies only when the function under
// verification has a parameter of that name (environment contracts written
// against the calling action's parameters).
func (x *Exec) inScope(cl *Clause) bool {
	for _, n := range cl.Scope {
		found := false
		if x.top != nil && x.top.Pkg != nil && x.top.RelString(x.top.Pkg.Pkg) == n {
			found = true // scoped to one calling function by name
		}
		if x.top != nil {
			for _, p := range x.top.Params {
				if p.Name() == n {
					found = true
				}
			}
			for _, fv := range x.top.FreeVars {
				if fv.Name() == n {
					found = true
				}
			}
		}
		if !found {
			return false
		}
	}
	return true
}

// forallInstances returns the name environments under which a callee's
// postconditions are assumed: one per combination of candidate values for the
// callee's `forall` constants (just `names` when it has none). Candidates are the
// caller's own quantified constants and the call arguments of the same type.
func (x *Exec) forallInstances(ct *Contract, names map[string]Val) []map[string]Val {
	out := []map[string]Val{names}
	for _, fa := range ct.Forall {
		ft := ghostType(fa.Type)
		var cands []Val
		seen := map[string]bool{}
		add := func(v Val) {
			if v.T == nil || !types.Identical(v.T, ft) || len(v.L) == 0 {
				return
			}
			k := ""
			for _, t := range v.L {
				k += t.S + "|"
			}
			if !seen[k] {
				seen[k] = true
				cands = append(cands, v)
			}
		}
		for _, v := range x.forallVals {
			add(v)
		}
		var keys []string
		for n := range names {
			keys = append(keys, n)
		}
		sort.Strings(keys)
		for _, n := range keys {
			add(names[n])
		}
		if x.topFrame != nil {
			for _, p := range x.top.Params {
				add(x.topFrame.vals[p])
			}
		}
		if len(cands) > 4 {
			cands = cands[:4]
		}
		var next []map[string]Val
		for _, base := range out {
			for _, cv := range cands {
				m := map[string]Val{}
				for k, v := range base {
					m[k] = v
				}
				m[fa.Name] = cv
				next = append(next, m)
			}
		}
		if len(next) == 0 {
			// no candidate: clauses mentioning the constant cannot be used (the others are)
			x.c.Note("contract %s: no instance for quantified constant %s at a call site", ct.Name, fa.Name)
			continue
		}
		out = next
	}
	return out
}

// havocAssigns havocs exactly the locations named by the assigns clause
// (object-precise for heap locations rooted at parameters).
func (x *Exec) havocAssigns(ct *Contract, f *ssa.Function, env *specEnv, st *State) {
	for _, a := range ct.Assigns {
		if se, ok := a.(*ast.SelectorExpr); ok {
			if id, ok := se.X.(*ast.Ident); ok && id.Name == "ghost" {
				continue // handled by caller
			}
		}
		if mt, ref, key, ok := x.mapIndexTarget(a, env); ok {
			x.havocMapEntry(st, mt, ref, key)
			continue
		}
		addr, ok := x.evalAddr(a, env)
		if !ok {
			eff := newEffects()
			x.assignExprEffects(ct, a, eff, f)
			x.havocEffectsK(st, eff, "asg", true)
			continue
		}
		fresh := freshVal(x.c, "asg", addr.FT)
		x.store(st, addr, fresh)
	}
}

func sigParamTypes(sig *types.Signature) []types.Type {
	var out []types.Type
	if sig.Recv() != nil {
		out = append(out, sig.Recv().Type())
	}
	for i := 0; i < sig.Params().Len(); i++ {
		out = append(out, sig.Params().At(i).Type())
	}
	return out
}

// getterCall models a generated getter `func (x *T) GetF() FT { if x != nil { return x.F }; return zero }`
// when T has a field F of exactly the result type (assumption recorded).
func (x *Exec) getterCall(f *ssa.Function, args []Val, st *State, reach Term) ([]Val, bool) {
	sig := f.Signature
	if sig.Results().Len() != 1 || len(args) != 1 {
		return nil, false
	}
	pt, ok := sig.Recv().Type().Underlying().(*types.Pointer)
	if !ok {
		return nil, false
	}
	stt, ok := pt.Elem().Underlying().(*types.Struct)
	if !ok {
		return nil, false
	}
	fname := strings.TrimPrefix(f.Name(), "Get")
	for k := 0; k < stt.NumFields(); k++ {
		fld := stt.Field(k)
		if fld.Name() == fname && types.Identical(fld.Type(), sig.Results().At(0).Type()) {
			recv := x.scalarize(args[0])
			a := &Addr{Kind: addrObj, Base: recv.L[0], Obj: pt.Elem(), Path: fld.Name(), FT: fld.Type()}
			v := x.load(st, a, reach)
			z := zeroVal(x.c, fld.Type())
			x.c.Note("library getter %s assumed to follow the generated-getter convention (returns field %s, zero for a nil receiver)", f.String(), fname)
			return []Val{iteVal(Eq(recv.L[0], BVLit(0, 32)), z, v)}, true
		}
	}
	return nil, false
}

// mapIndexTarget recognises an assigns target of the form m[k] where m is a
// map with a scalar key: the map type, the map reference and the key.
func (x *Exec) mapIndexTarget(a ast.Expr, env *specEnv) (mt types.Type, ref, key Term, ok bool) {
	defer func() {
		if r := recover(); r != nil {
			ok = false
		}
	}()
	ix, isIx := a.(*ast.IndexExpr)
	if !isIx {
		return nil, Term{}, Term{}, false
	}
	mv := x.evalSpec(ix.X, env, TTrue)
	if mv.T == nil {
		return nil, Term{}, Term{}, false
	}
	m, isMap := mv.T.Underlying().(*types.Map)
	if !isMap {
		return nil, Term{}, Term{}, false
	}
	kv := x.scalarize(x.materialize(x.evalSpec(ix.Index, env, TTrue), m.Key()))
	mvs := x.scalarize(mv)
	if len(kv.L) != 1 || len(mvs.L) != 1 {
		return nil, Term{}, Term{}, false
	}
	return mv.T, mvs.L[0], kv.L[0], true
}

// havocMapEntry gives the entry m[k] an arbitrary presence and value.
func (x *Exec) havocMapEntry(st *State, mt types.Type, ref, key Term) {
	m := mt.Underlying().(*types.Map)
	ks, has, hasKey, ok := x.mapParts(st, mt)
	if !ok {
		eff := newEffects()
		eff.Keys["map:"+typeKey(mt)+"|"] = true
		x.havocEffectsK(st, eff, "mapasg", true)
		return
	}
	x.heapSet(st, hasKey, Store(has, ref, Store(Select(has, ref), key, x.c.Fresh("asg_has", SBool))))
	for _, l := range shape(m.Elem()) {
		k := mapKey(mt, "v:"+l.Path)
		arr := x.heapGet(st, k, SArr(SRef, SArr(ks[0].Sort, l.Sort)))
		fv := x.c.Fresh("asg_mv", l.Sort)
		if l.isRef() {
			x.c.Assume(Op("bvult", SBool, fv, st.ctr))
		}
		x.heapSet(st, k, Store(arr, ref, Store(Select(arr, ref), key, fv)))
	}
}

// chanName: the source name of a channel that is a parameter or a captured
// variable of the enclosing function ("" otherwise); key of the lastrecv() ghost.
func chanName(v ssa.Value) string {
	if _, ok := v.Type().Underlying().(*types.Chan); !ok {
		return ""
	}
	switch c := v.(type) {
	case *ssa.Parameter:
		return c.Name()
	case *ssa.FreeVar:
		return c.Name()
	case *ssa.UnOp:
		if fv, ok := c.X.(*ssa.FreeVar); ok && c.Op == token.MUL {
			return fv.Name()
		}
	}
	return ""
}

// addFreeVarNames: in a function literal under contract, the name of a captured
// variable denotes its current value (the cell's content in st).
func (x *Exec) addFreeVarNames(names map[string]Val, st *State, reach Term) {
	if x.top == nil || x.topFrame == nil {
		return
	}
	for _, fv := range x.top.FreeVars {
		if _, shadow := names[fv.Name()]; shadow {
			continue
		}
		v, ok := x.topFrame.vals[fv]
		if !ok {
			continue
		}
		if _, isPtr := fv.Type().Underlying().(*types.Pointer); isPtr {
			names[fv.Name()] = x.load(st, x.toAddr(v), reach)
		}
	}
}

type heapKeySort struct {
	key string
	srt Sort
}

// staticKeys enumerates the heap arrays type-reachable from a value of type t
// (through pointers, slices, maps and struct fields; interface values are not
// followed, like everywhere else).
func staticKeys(t types.Type, out *[]heapKeySort, seen map[string]bool, depth int) {
	if t == nil || depth > 12 {
		return
	}
	add := func(key string, srt Sort) bool {
		if seen[key] {
			return false
		}
		seen[key] = true
		*out = append(*out, heapKeySort{key, srt})
		return true
	}
	defer func() { recover() }() // shapes of exotic types: not part of the footprint
	switch u := t.Underlying().(type) {
	case *types.Pointer:
		obj := u.Elem()
		mark := "visited:" + typeKey(obj)
		if seen[mark] {
			return
		}
		seen[mark] = true
		if arr, ok := arrayOf(obj); ok {
			for _, l := range shape(arr.Elem()) {
				add(sliceKey(arr.Elem(), l.Path), SArr(SBV(64), SArr(SBV(64), l.Sort)))
			}
			staticKeys(arr.Elem(), out, seen, depth+1)
			return
		}
		for _, l := range shape(obj) {
			if l.Sort.IsArr() {
				continue // embedded arrays live in their own encoding
			}
			add(objKey(obj, l.Path), SArr(SRef, l.Sort))
		}
		staticInside(obj, out, seen, depth+1)
	case *types.Slice:
		mark := "visited:[]" + typeKey(u.Elem())
		if seen[mark] {
			return
		}
		seen[mark] = true
		for _, l := range shape(u.Elem()) {
			add(sliceKey(u.Elem(), l.Path), SArr(SBV(64), SArr(SBV(64), l.Sort)))
		}
		staticInside(u.Elem(), out, seen, depth+1)
	case *types.Map:
		mark := "visited:map:" + typeKey(t)
		if seen[mark] {
			return
		}
		seen[mark] = true
		ks := shape(u.Key())
		if len(ks) == 1 {
			add(mapKey(t, "#has"), SArr(SRef, SArr(ks[0].Sort, SBool)))
			for _, l := range shape(u.Elem()) {
				add(mapKey(t, "v:"+l.Path), SArr(SRef, SArr(ks[0].Sort, l.Sort)))
			}
		}
		staticInside(u.Elem(), out, seen, depth+1)
	case *types.Struct:
		staticInside(t, out, seen, depth+1)
	case *types.Array:
		staticInside(u.Elem(), out, seen, depth+1)
	}
}

func staticInside(t types.Type, out *[]heapKeySort, seen map[string]bool, depth int) {
	if st, ok := t.Underlying().(*types.Struct); ok {
		for i := 0; i < st.NumFields(); i++ {
			staticKeys(st.Field(i).Type(), out, seen, depth+1)
		}
		return
	}
	staticKeys(t, out, seen, depth)
}

// mentionsUnbound: the clause uses a quantified constant of the contract for
// which this call site has no instance.
func mentionsUnbound(e ast.Expr, fas []GhostDecl, inst map[string]Val) bool {
	found := false
	ast.Inspect(e, func(n ast.Node) bool {
		if id, ok := n.(*ast.Ident); ok {
			for _, fa := range fas {
				if fa.Name == id.Name {
					if _, bound := inst[fa.Name]; !bound {
						found = true
					}
				}
			}
		}
		return !found
	})
	return found
}

// scalarElems: the element type has no references (pointers, maps, slices, interfaces).
func scalarElems(t types.Type) bool {
	defer func() { recover() }()
	for _, l := range shape(t) {
		if l.isRef() || strings.HasPrefix(l.Path, "#") || strings.Contains(l.Path, "#") {
			return false
		}
	}
	switch t.Underlying().(type) {
	case *types.Basic:
		return true
	case *types.Struct, *types.Array:
		return true
	}
	return false
}

// bvLitValue: the value of a bit-vector literal term.
func bvLitValue(t Term) (int64, bool) {
	s := t.S
	if strings.HasPrefix(s, "(_ bv") {
		rest := s[len("(_ bv"):]
		if i := strings.Index(rest, " "); i > 0 {
			if n, err := strconv.ParseInt(rest[:i], 10, 64); err == nil {
				return n, true
			}
		}
	}
	return 0, false
}

// sliceContains: slices.Contains(s, v) for a slice of single-leaf scalars, as an
// uninterpreted function of the slice's content, its length and the needle
// (independent of which backing store holds the content).
func (x *Exec) sliceContains(st *State, s, v Val) (Val, bool) {
	sl, ok := s.T.Underlying().(*types.Slice)
	if !ok || len(s.L) != 3 {
		return Val{}, false
	}
	es := shape(sl.Elem())
	if len(es) != 1 || es[0].isRef() {
		return Val{}, false
	}
	vv := x.scalarize(x.materialize(v, sl.Elem()))
	if len(vv.L) != 1 {
		return Val{}, false
	}
	srt := SArr(SBV(64), SArr(SBV(64), es[0].Sort))
	content := Select(x.heapGet(st, sliceKey(sl.Elem(), es[0].Path), srt), s.L[0])
	r := x.c.App("slices_contains_"+sanitize(typeKey(sl.Elem())), SBool, content, s.L[1], vv.L[0])
	return Val{T: types.Typ[types.Bool], L: []Term{r}}, true
}

// fmtOperands: the format and the (tag, data) pairs of the variadic operands of a
// formatting call with a statically known number of operands. An operand that is
// (a pointer to) an object holding secret fields makes the text depend on them.
func (x *Exec) fmtOperands(st *State, args []Val, reach Term) ([]Term, int64, bool) {
	if len(args) != 2 || len(args[1].L) != 3 {
		return nil, 0, false
	}
	n, ok := bvLitValue(args[1].L[1])
	if !ok || n < 0 || n > 8 {
		return nil, 0, false
	}
	f0 := x.materialize(args[0], types.Typ[types.String])
	ts := []Term{f0.L[0]}
	var et types.Type = types.NewInterfaceType(nil, nil)
	if sl, ok := args[1].T.Underlying().(*types.Slice); ok {
		et = sl.Elem()
	}
	si := x.e.secretInfo()
	for k := int64(0); k < n; k++ {
		a := &Addr{Kind: addrElem, SliceID: args[1].L[0], Index: BVLit(k, 64), ElemT: et, FT: et}
		ev := x.load(st, a, reach)
		ts = append(ts, ev.L...)
	}
	// operands whose static type holds secret fields are formatted with those fields
	if len(si.holders) > 0 {
		for _, ot := range variadicOperandTypes(x.curCC) {
			tk := typeKey(ot)
			for h := range si.holders {
				if tk == h || tk == "*"+h {
					ts = append(ts, x.c.Named("TAINT_an_object_of_type_"+sanitize(h), SBV(64)))
				}
			}
		}
	}
	return ts, n, true
}

func (x *Exec) allLeaves(args []Val) []Term {
	var ts []Term
	for _, a := range args {
		if a.C != nil || a.T == nil {
			continue
		}
		ts = append(ts, x.scalarize(a).L...)
	}
	return ts
}

// variadicOperandTypes: the static types of the operands the compiler packed
// into the variadic slice of a call (`new [n]any` + stores of MakeInterface values).
func variadicOperandTypes(cc *ssa.CallCommon) []types.Type {
	if cc == nil || len(cc.Args) == 0 {
		return nil
	}
	sl, ok := cc.Args[len(cc.Args)-1].(*ssa.Slice)
	if !ok {
		return nil
	}
	al, ok := sl.X.(*ssa.Alloc)
	if !ok || al.Referrers() == nil {
		return nil
	}
	var out []types.Type
	for _, r := range *al.Referrers() {
		ia, ok := r.(*ssa.IndexAddr)
		if !ok || ia.Referrers() == nil {
			continue
		}
		for _, rr := range *ia.Referrers() {
			if stv, ok := rr.(*ssa.Store); ok {
				if mi, ok := stv.Val.(*ssa.MakeInterface); ok {
					out = append(out, mi.X.Type())
				}
			}
		}
	}
	return out
}

// preciseAppend: append(s, e0 .. ek-1) with a statically known number of
// appended elements. Go semantics: when the capacity suffices the elements are
// written into s's own backing store (visible through every slice sharing it)
// and the result shares it; otherwise the result is a fresh store holding a copy
// of s's elements followed by the new ones.
func (x *Exec) preciseAppend(st *State, cc *ssa.CallCommon, args []Val, reach Term) (Val, bool) {
	if len(args) != 2 || len(args[0].L) != 3 || len(args[1].L) != 3 {
		return Val{}, false
	}
	rt := cc.Args[0].Type()
	sl, ok := rt.Underlying().(*types.Slice)
	if !ok || isString(cc.Args[1].Type()) {
		return Val{}, false
	}
	k, ok := bvLitValue(args[1].L[1])
	if !ok || k < 0 || k > 8 {
		return Val{}, false
	}
	es := shape(sl.Elem())
	for _, l := range es {
		if l.Sort.IsArr() {
			return Val{}, false
		}
	}
	s := args[0]
	n := Op("bvadd", SBV(64), s.L[1], BVLit(k, 64))
	inplace := And(Op("bvsle", SBool, n, s.L[2]), Not(Eq(s.L[0], BVLit(0, 64))))
	fresh := x.freshSliceID(st)
	newid := x.c.Define("appid", Ite(inplace, s.L[0], fresh))
	fcap := x.c.Fresh("cap", SBV(64))
	x.c.Assume(Op("bvsle", SBool, n, fcap))
	newcap := Ite(inplace, s.L[2], fcap)
	if k == 0 {
		return Val{T: rt, L: []Term{s.L[0], s.L[1], s.L[2]}}, true
	}
	for _, l := range es {
		key := sliceKey(sl.Elem(), l.Path)
		srt := SArr(SBV(64), SArr(SBV(64), l.Sort))
		h := x.heapGet(st, key, srt)
		base := Select(h, s.L[0])
		for j := int64(0); j < k; j++ {
			a := &Addr{Kind: addrElem, SliceID: args[1].L[0], Index: BVLit(j, 64), ElemT: sl.Elem(), FT: sl.Elem()}
			ev := x.scalarize(x.load(st, a, reach))
			// the leaf of this element at path l
			var leaf Term
			for li, ll := range es {
				if ll.Path == l.Path && li < len(ev.L) {
					leaf = ev.L[li]
				}
			}
			if leaf.S == "" {
				return Val{}, false
			}
			base = Store(base, Op("bvadd", SBV(64), s.L[1], BVLit(j, 64)), leaf)
		}
		x.heapSet(st, key, x.c.Define("H_"+key, Store(h, newid, base)))
	}
	return Val{T: rt, L: []Term{newid, n, newcap}}, true
}
