package main

import (
	"golang.org/x/tools/go/ssa"
)

// lockOp classifies sync.Mutex / sync.RWMutex operations.
func (x *Exec) lockOp(f *ssa.Function) string {
	switch f.String() {
	case "(*sync.Mutex).Lock", "(*sync.RWMutex).Lock":
		return "lock"
	case "(*sync.Mutex).Unlock", "(*sync.RWMutex).Unlock":
		return "unlock"
	case "(*sync.RWMutex).RLock":
		return "rlock"
	case "(*sync.RWMutex).RUnlock":
		return "runlock"
	case "(*sync.Mutex).TryLock", "(*sync.RWMutex).TryLock":
		return ""
	}
	return ""
}

func (x *Exec) lockID(v Val) Term {
	s := x.scalarize(v)
	return Extend(s.L[0], 64, false)
}

// lockCall maintains the ghost lock-set `held`.
func (x *Exec) lockCall(fr *frame, st *State, op string, args []Val, reach Term, where string) {
	id := x.lockID(args[0])
	switch op {
	case "lock", "rlock":
		if x.lockObls {
			x.addObl(x.fname()+"#lock[not-held]", "lock", "a mutex is never acquired while this call chain already holds it", x.propsOrNil(),
				OblPart{NegGoal: And(reach, Select(st.held, id)), NAssume: len(x.c.Assumes), Where: where}, false)
		}
		st.held = x.c.Define("held", Store(st.held, id, TTrue))
	case "unlock", "runlock":
		st.held = x.c.Define("held", Store(st.held, id, TFalse))
	}
}
