package main

// notGoal returns the negated goal, or false when exactly this fact is already
// among the assumptions (terms are hash-consed, so an invariant over data the
// code did not touch is the very term assumed at entry).
func (x *Exec) notGoal(g Term) Term {
	if g.IsTrue() || x.c.Assumed(g, len(x.c.Assumes)) {
		return TFalse
	}
	return Not(g)
}
