package main

import (
	"go/parser"
	"fmt"
	"go/ast"
	"go/token"
	"go/types"
	"os"
	"path/filepath"
	"sort"
	"strings"

	"golang.org/x/tools/go/packages"
	"golang.org/x/tools/go/ssa"
	"golang.org/x/tools/go/ssa/ssautil"
)

type Engine struct {
	repo       string
	prog       *ssa.Program
	pkgs       []*packages.Package
	byPath     map[string]*packages.Package
	cs         *ContractSet
	modulePath string
	fset       *token.FileSet
	typeTags   map[string]int
	effCache   map[*ssa.Function]*Effects
	funcs      map[string]*ssa.Function
	loadSecs   float64
	implCache  map[string][]devImpl
	inlineDeps map[string]bool
	secrets    *secretInfo // dependency packages whose small functions are followed (built on demand)
	built      map[*ssa.Package]bool
	nonNilGlobals map[*ssa.Global]bool
	applyModel    int // 0 unknown, 1 messages applied only when accepted, 2 applied in every state
	encap         *encapState
}

// ensureBuilt builds the SSA of allow-listed dependency packages on demand so
// that their small getters can be followed instead of havocked.
func (e *Engine) ensureBuilt(f *ssa.Function) {
	if f.Pkg == nil || len(f.Blocks) > 0 {
		return
	}
	if !e.inlineDeps[f.Pkg.Pkg.Path()] || e.built[f.Pkg] {
		return
	}
	e.built[f.Pkg] = true
	f.Pkg.Build()
}

func (e *Engine) typesPkg(path string) *types.Package {
	if p, ok := e.byPath[path]; ok {
		return p.Types
	}
	return nil
}

func (e *Engine) pkgByName(name string) *types.Package {
	var cands []*types.Package
	for _, p := range e.prog.AllPackages() {
		if p.Pkg.Name() == name {
			cands = append(cands, p.Pkg)
		}
	}
	if len(cands) == 0 {
		return nil
	}
	// prefer module packages
	for _, c := range cands {
		if strings.HasPrefix(c.Path(), e.modulePath) {
			return c
		}
	}
	// deterministic: complete packages first, then the shortest, then the smallest path
	sort.Slice(cands, func(i, j int) bool {
		ci, cj := len(cands[i].Scope().Names()) > 0, len(cands[j].Scope().Names()) > 0
		if ci != cj {
			return ci
		}
		if len(cands[i].Path()) != len(cands[j].Path()) {
			return len(cands[i].Path()) < len(cands[j].Path())
		}
		return cands[i].Path() < cands[j].Path()
	})
	return cands[0]
}

// pkgByNameFrom resolves a package name as the package `from` would: its direct
// imports first, then any loaded package of that name.
func (e *Engine) pkgByNameFrom(from *types.Package, name string) *types.Package {
	if from != nil {
		for _, imp := range from.Imports() {
			if imp.Name() == name {
				return imp
			}
		}
	}
	return e.pkgByName(name)
}

// syntaxDeps: dependency packages loaded with syntax so that their functions
// have SSA bodies (see Engine.inlineDeps).
var syntaxDeps = map[string]bool{
	"github.com/btcsuite/btcd/wire": true,
	"github.com/vulpemventures/go-elements/transaction": true,
}

func loadEngine(repo string, patterns []string) (*Engine, error) {
	env := append(os.Environ(), "GOFLAGS=-mod=mod", "GOPROXY=off", "GOSUMDB=off", "GOTOOLCHAIN=local")
	// pass 1 (cheap): the module-internal import closure of the requested packages
	cfg0 := &packages.Config{Mode: packages.NeedName | packages.NeedImports | packages.NeedDeps | packages.NeedModule,
		Dir: repo, BuildFlags: []string{"-tags=verif"}, Env: env}
	pre, err := packages.Load(cfg0, patterns...)
	if err != nil {
		return nil, err
	}
	modPath := ""
	for _, p := range pre {
		if p.Module != nil {
			modPath = p.Module.Path
		}
	}
	roots := map[string]bool{}
	packages.Visit(pre, nil, func(p *packages.Package) {
		if modPath != "" && (p.PkgPath == modPath || strings.HasPrefix(p.PkgPath, modPath+"/")) {
			roots[p.PkgPath] = true
		}
	})
	// dependency packages whose (small, loop-free) constructors are followed need
	// their syntax too; only those actually imported are added
	packages.Visit(pre, nil, func(p *packages.Package) {
		if syntaxDeps[p.PkgPath] {
			roots[p.PkgPath] = true
		}
	})
	var rootList []string
	for r := range roots {
		rootList = append(rootList, r)
	}
	sort.Strings(rootList)
	if len(rootList) == 0 {
		rootList = patterns
	}
	// pass 2: syntax + types for module packages, export data for everything else
	cfg := &packages.Config{
		Mode:       packages.LoadSyntax | packages.NeedModule,
		Dir:        repo,
		BuildFlags: []string{"-tags=verif"},
		Env:        env,
	}
	pkgs, err := packages.Load(cfg, rootList...)
	if err != nil {
		return nil, err
	}
	nerr := 0
	packages.Visit(pkgs, nil, func(p *packages.Package) {
		for _, e := range p.Errors {
			if strings.HasPrefix(p.PkgPath, "github.com/elementsproject/peerswap") {
				fmt.Fprintf(os.Stderr, "load error: %s: %v\n", p.PkgPath, e)
				nerr++
			}
		}
	})
	if nerr > 0 {
		return nil, fmt.Errorf("%d load errors", nerr)
	}
	prog, _ := ssautil.Packages(pkgs, ssa.InstantiateGenerics)
	e := &Engine{repo: repo, prog: prog, pkgs: pkgs, byPath: map[string]*packages.Package{}, typeTags: map[string]int{},
		effCache: map[*ssa.Function]*Effects{}, funcs: map[string]*ssa.Function{}, built: map[*ssa.Package]bool{}, implCache: map[string][]devImpl{},
		inlineDeps: map[string]bool{
			"github.com/lightningnetwork/lnd/lnrpc":           true,
			"github.com/lightningnetwork/lnd/lnrpc/routerrpc": true,
			"github.com/elementsproject/glightning/glightning": true,
			"github.com/btcsuite/btcd/wire":                    true,
			"github.com/vulpemventures/go-elements/transaction": true,
		}}
	packages.Visit(pkgs, nil, func(p *packages.Package) {
		e.byPath[p.PkgPath] = p
	})
	if len(pkgs) > 0 {
		e.fset = pkgs[0].Fset
	}
	e.modulePath = modPath
	if e.modulePath == "" {
		e.modulePath = "github.com/elementsproject/peerswap"
	}
	dirs := map[string]string{}
	for _, p := range pkgs {
		if len(p.GoFiles) > 0 {
			dirs[p.PkgPath] = filepath.Dir(p.GoFiles[0])
		}
	}
	// build SSA for module packages only (bodies of dependencies are never followed)
	for _, sp := range prog.AllPackages() {
		if strings.HasPrefix(sp.Pkg.Path(), e.modulePath) {
			// `//@ debugnames` in a package's contract file: loop invariants of that package
			// may name local variables (go/ssa debug references map them to SSA values)
			if d, ok := dirs[sp.Pkg.Path()]; ok {
				if b, err := os.ReadFile(filepath.Join(d, "zz_verif_contracts.go")); err == nil && strings.Contains(string(b), "\n//@ debugnames") {
					sp.SetDebugMode(true)
				}
			}
			sp.Build()
		}
	}
	e.cs, err = loadContracts(repo, dirs)
	if err != nil {
		return nil, err
	}
	// extern contracts: `interface pkgname.Type.Method` (or callback) declares the
	// assumed contract of a type of another package (a dependency); it is keyed by
	// that package's path, its clauses are evaluated in the declaring package's scope
	for key, ct := range e.cs.Funcs {
		if ct.ExternPkg != "" {
			p := e.pkgByNameFrom(e.typesPkg(ct.PkgPath), ct.ExternPkg)
			if p == nil {
				return nil, fmt.Errorf("%s:%d: extern contract %s: unknown package %q", ct.File, ct.Line, ct.Name, ct.ExternPkg)
			}
			delete(e.cs.Funcs, key)
			ct.TypePkg = p.Path()
			e.cs.Funcs[p.Path()+"::"+ct.Name] = ct
			continue
		}
		if !ct.IsIface || strings.Count(ct.Name, ".") != 2 {
			continue
		}
		i := strings.Index(ct.Name, ".")
		p := e.pkgByNameFrom(e.typesPkg(ct.PkgPath), ct.Name[:i])
		if p == nil {
			return nil, fmt.Errorf("%s:%d: extern contract %s: unknown package %q", ct.File, ct.Line, ct.Name, ct.Name[:i])
		}
		delete(e.cs.Funcs, key)
		ct.TypePkg = p.Path()
		ct.Name = ct.Name[i+1:]
		e.cs.Funcs[p.Path()+"::"+ct.Name] = ct
	}
	for fn := range ssautil.AllFunctions(prog) {
		pp := funcPkgPath(fn)
		if !strings.HasPrefix(pp, e.modulePath) {
			continue
		}
		if fn.Synthetic != "" && !strings.HasPrefix(fn.Synthetic, "wrapper") && fn.Synthetic != "package initializer" {
			continue
		}
		key := pp + "::" + funcRelName(fn)
		if old, ok := e.funcs[key]; ok && old.Synthetic == "" {
			continue
		}
		e.funcs[key] = fn
	}
	// methods of unexported named types are not roots of AllFunctions
	for _, sp := range prog.AllPackages() {
		if !strings.HasPrefix(sp.Pkg.Path(), e.modulePath) {
			continue
		}
		for _, mem := range sp.Members {
			tm, ok := mem.(*ssa.Type)
			if !ok {
				continue
			}
			named, ok := tm.Type().(*types.Named)
			if !ok || named.TypeParams() != nil || types.IsInterface(named) {
				continue
			}
			for _, T := range []types.Type{named, types.NewPointer(named)} {
				mset := prog.MethodSets.MethodSet(T)
				for i := 0; i < mset.Len(); i++ {
					fn := prog.MethodValue(mset.At(i))
					if fn == nil || fn.Synthetic != "" {
						continue
					}
					key := funcPkgPath(fn) + "::" + funcRelName(fn)
					if _, ok := e.funcs[key]; !ok {
						e.funcs[key] = fn
					}
				}
			}
		}
	}
	return e, nil
}

// usable: the (unscoped) clauses of a function contract can be evaluated against
// the function's current signature. A contract that cannot (the function was
// renamed or its parameters changed) is reported as stale where it is verified
// and is ignored at call sites, where the callee is then followed like any
// function without a contract, so that callers' obligations are still decided.
func (e *Engine) usable(ct *Contract) bool {
	if ct.checkedUsable {
		return !ct.unusable
	}
	ct.checkedUsable = true
	if ct.IsIface {
		return true
	}
	fn := e.funcs[ct.PkgPath+"::"+ct.Name]
	if fn == nil {
		return true // no such function: nothing can call it
	}
	x := &Exec{e: e, c: NewCtx(), reg: &heapReg{sorts: map[string]Sort{}}, obls: map[string]*Oblig{}, top: fn, ct: ct,
		inlined: map[string]bool{}, havocked: map[string]bool{}, usedContracts: map[string]bool{},
		knownNonNil: map[string]bool{}, globalsSeen: map[string]bool{}, rangeOf: map[*ssa.Range]Val{}}
	defer func() {
		if r := recover(); r != nil {
			ct.unusable = true
		}
	}()
	st0 := x.newState()
	x.initGhosts(st0, ct.PkgPath)
	names := map[string]Val{}
	for _, p := range fn.Params {
		names[p.Name()] = freshVal(x.c, "arg_"+p.Name(), p.Type())
	}
	for _, fa := range ct.Forall {
		names[fa.Name] = freshVal(x.c, "forall_"+fa.Name, ghostType(fa.Type))
	}
	for _, fv := range fn.FreeVars {
		if pt, isPtr := fv.Type().Underlying().(*types.Pointer); isPtr {
			names[fv.Name()] = freshVal(x.c, "fv_"+fv.Name(), pt.Elem())
		}
	}
	res := x.freshResults(fn.Signature, "res")
	env := &specEnv{x: x, names: names, st: st0, old: st0, pkg: e.typesPkg(ct.PkgPath), sig: fn.Signature, results: res}
	x.specDepth++
	for _, cl := range ct.Req {
		if len(cl.Scope) == 0 {
			x.evalBool(cl.Expr, env, TTrue)
		}
	}
	for _, cl := range ct.Ens {
		if len(cl.Scope) == 0 {
			x.evalBool(cl.Expr, env, TTrue)
		}
	}
	for _, cl := range ct.Sets {
		x.evalSpec(cl.Expr, env, TTrue)
	}
	return true
}

// verifyContract generates the obligations of one function under contract.
func (e *Engine) verifyContract(ct *Contract) (x *Exec, err error) {
	fn := e.funcs[ct.PkgPath+"::"+ct.Name]
	if fn == nil {
		return nil, fmt.Errorf("%s:%d: no function %q in package %s (contract is stale)", ct.File, ct.Line, ct.Name, ct.PkgPath)
	}
	if len(fn.Blocks) == 0 {
		return nil, fmt.Errorf("%s: function %s has no body", ct.File, ct.Name)
	}
	x = &Exec{e: e, c: NewCtx(), reg: &heapReg{sorts: map[string]Sort{}}, obls: map[string]*Oblig{}, top: fn, ct: ct,
		inlined: map[string]bool{}, havocked: map[string]bool{}, usedContracts: map[string]bool{},
		knownNonNil: map[string]bool{}, globalsSeen: map[string]bool{}, rangeOf: map[*ssa.Range]Val{}}
	defer func() {
		if r := recover(); r != nil {
			if se, ok := r.(specError); ok {
				err = fmt.Errorf("%s: %s: %s", ct.File, ct.Name, se.msg)
				return
			}
			panic(r)
		}
	}()
	st0 := x.newState()
	x.initGhosts(st0, ct.PkgPath)
	if fn.Synthetic == "package initializer" && fn.Pkg != nil {
		// the initialiser is verified for its first (only) run: the guard is false
		if g := fn.Pkg.Var("init$guard"); g != nil {
			bt := types.Typ[types.Bool]
			x.store(st0, &Addr{Kind: addrObj, Base: x.globalRef(g), Obj: bt, FT: bt}, Val{T: bt, L: []Term{TFalse}})
		}
	}
	names := map[string]Val{}
	var args []Val
	for _, p := range fn.Params {
		if ch, ok := p.Type().Underlying().(*types.Chan); ok {
			st0.ghost["recv$"+p.Name()] = freshVal(x.c, "recv0_"+p.Name(), ch.Elem())
		}
	}
	for _, fv := range fn.FreeVars {
		t := fv.Type()
		if pt, ok := t.Underlying().(*types.Pointer); ok {
			t = pt.Elem()
		}
		if ch, ok := t.Underlying().(*types.Chan); ok {
			st0.ghost["recv$"+fv.Name()] = freshVal(x.c, "recv0_"+fv.Name(), ch.Elem())
		}
	}
	for _, p := range fn.Params {
		v := freshVal(x.c, "arg_"+p.Name(), p.Type())
		x.wellFormed(v, st0)
		args = append(args, v)
		names[p.Name()] = v
	}
	// a function literal under contract: its captured variables are arbitrary
	// (non-nil cells); in specs a captured variable's name denotes its value at entry
	var fvs []Val
	for _, fv := range fn.FreeVars {
		v := freshVal(x.c, "fv_"+fv.Name(), fv.Type())
		x.wellFormed(v, st0)
		if len(v.L) == 1 && isRefType(v.T) {
			x.c.Assume(Not(Eq(v.L[0], BVLit(0, 32))))
		}
		fvs = append(fvs, v)
		if _, isPtr := fv.Type().Underlying().(*types.Pointer); isPtr {
			if _, shadow := names[fv.Name()]; !shadow {
				names[fv.Name()] = x.load(st0, x.toAddr(v), TTrue)
			}
		}
	}
	for _, fa := range ct.Forall {
		v := freshVal(x.c, "forall_"+fa.Name, ghostType(fa.Type))
		names[fa.Name] = v
		x.forallVals = append(x.forallVals, v)
		x.cexBase = append(x.cexBase, CexTerm{"forall." + fa.Name, v.L[0]})
	}
	pkg := e.typesPkg(ct.PkgPath)
	env := &specEnv{x: x, names: names, st: st0, old: st0, pkg: pkg, sig: fn.Signature}
	for i, p := range fn.Params {
		x.cexBase = append(x.cexBase, x.cexOf("in."+p.Name(), args[i], st0, 1)...)
	}
	for g, v := range st0.ghost {
		x.cexBase = append(x.cexBase, x.cexOf("in.ghost."+g, v, st0, 0)...)
	}
	x.specDepth++
	var reqs []Term
	for _, cl := range ct.Req {
		if !x.inScope(cl) {
			continue // written against a caller's parameters: a call-site obligation only
		}
		g := x.evalBool(cl.Expr, env, TTrue)
		reqs = append(reqs, g)
		x.c.Assume(g)
		if cl.Kind == "typeinv" {
			x.c.Note("representation invariant assumed, not checked at call sites: %s: %s", ct.Name, cl.Text)
		}
	}
	x.specDepth--
	x.nReq = len(x.c.Assumes)
	entry := st0.clone()
	rets := x.runFunc(fn, args, fvs, st0, TTrue, 0, true, env)
	if ct.NoSend {
		// a record for the evidence when the code has no send at all (each send
		// found is its own obligation, failing iff it is reachable)
		x.addObl(x.fname()+"#nosend", "nosend", "every channel send in the function's own code is unreachable", x.noSendProps(),
			OblPart{NegGoal: TFalse, NAssume: len(x.c.Assumes), Where: "function"}, false)
	}
	var liveReach []Term
	for ri, r := range rets {
		if r.panicked {
			continue
		}
		liveReach = append(liveReach, r.reach)
		for _, cl := range ct.Sets {
			env2 := &specEnv{x: x, names: names, st: r.st, old: entry, pkg: pkg, results: r.vals, sig: fn.Signature}
			x.specDepth++
			gv, ok := r.st.ghost[cl.Label]
			if !ok {
				specFail("sets: unknown ghost %q", cl.Label)
			}
			nv := x.materialize(x.evalSpec(cl.Expr, env2, r.reach), gv.T)
			x.specDepth--
			r.st.ghost[cl.Label] = nv
		}
		for k, cl := range ct.Ens {
			if cl.Trusted {
				x.c.Note("trusted postcondition (assumed at call sites, not checked against the body): %s: %s", ct.Name, cl.Text)
				continue
			}
			env2 := &specEnv{x: x, names: names, st: r.st, old: entry, pkg: pkg, results: r.vals, sig: fn.Signature}
			x.specDepth++
			g := x.evalBool(cl.Expr, env2, r.reach)
			x.specDepth--
			name := fmt.Sprintf("%s#ensures[%s]", x.fname(), clauseLabel(cl, k))
			cex := append([]CexTerm{}, x.cexBase...)
			for j, rv := range r.vals {
				cex = append(cex, x.cexOf(fmt.Sprintf("out.result%d", j), rv, r.st, 1)...)
			}
			for i, p := range fn.Params {
				if _, isPtr := p.Type().Underlying().(*types.Pointer); isPtr {
					cex = append(cex, x.cexOf("out."+p.Name(), args[i], r.st, 1)...)
				}
			}
			x.addObl(name, "ensures", cl.Text, clauseProps(cl, ct), OblPart{NegGoal: And(r.reach, Not(g)), NAssume: len(x.c.Assumes), Where: fmt.Sprintf("return #%d %s", ri, r.pos), Cex: cex}, false)
			if cl.Kind == "refute" {
				x.obls[name].Search = true
			}
			// vacuity guard: the situation an implication speaks about must be reachable
			// at some return (see report.go: `#ensures[label].cover` must be SAT)
			if ce, ok := cl.Expr.(*ast.CallExpr); ok && len(ce.Args) == 2 {
				if id, ok := ce.Fun.(*ast.Ident); ok && id.Name == "__imp" && os.Getenv("GOVC_NO_ENS_COVERS") == "" {
					x.specDepth++
					a := x.evalBool(ce.Args[0], env2, r.reach)
					x.specDepth--
					if x.ensCover == nil {
						x.ensCover = map[string]*ensCover{}
					}
					ec := x.ensCover[name]
					if ec == nil {
						ec = &ensCover{props: clauseProps(cl, ct), text: cl.Text}
						x.ensCover[name] = ec
						x.ensCoverOrder = append(x.ensCoverOrder, name)
					}
					ec.terms = append(ec.terms, And(r.reach, a))
				}
			}
		}
		if ct.HasAssigns {
			x.frameObligations(ct, fn, env, entry, r)
		}
	}
	x.coverReach = Or(liveReach...)
	return x, nil
}

func (x *Exec) assume(t Term) {
	if x.specDepth > 0 {
		return
	}
	x.c.Assume(t)
}

func (x *Exec) initGhosts(st *State, pkgPath string) {
	for pp, gs := range x.e.cs.Ghosts {
		_ = pp
		for _, g := range gs {
			t := x.e.ghostTypeIn(pp, g.Type)
			gv := freshVal(x.c, "ghost0_"+g.Name, t)
			x.wellFormed(gv, st)
			st.ghost[g.Name] = gv
		}
	}
}

// ghostTypeIn resolves a ghost's type: a basic type name, or any Go type
// expression in the scope of the declaring package (e.g. []*SwapStateMachine).
func (e *Engine) ghostTypeIn(pkgPath, s string) types.Type {
	switch s {
	case "bool", "int", "int64", "uint64", "uint32", "string":
		return ghostType(s)
	}
	if p := e.typesPkg(pkgPath); p != nil {
		if tv, err := types.Eval(e.fset, p, token.NoPos, s); err == nil && tv.Type != nil {
			return tv.Type
		}
		// types of other packages (`*wire.MsgTx`): resolve the qualifier by package name
		if ex, err := parser.ParseExpr(s); err == nil {
			if t := e.typeOfExpr(ex, p); t != nil {
				return t
			}
		}
	}
	panic(fmt.Sprintf("unsupported ghost type %s (package %s loaded=%v)", s, pkgPath, e.typesPkg(pkgPath) != nil))
}

func (e *Engine) typeOfExpr(ex ast.Expr, scope *types.Package) types.Type {
	switch n := ex.(type) {
	case *ast.StarExpr:
		if t := e.typeOfExpr(n.X, scope); t != nil {
			return types.NewPointer(t)
		}
	case *ast.ArrayType:
		if n.Len == nil {
			if t := e.typeOfExpr(n.Elt, scope); t != nil {
				return types.NewSlice(t)
			}
		}
	case *ast.MapType:
		k, v := e.typeOfExpr(n.Key, scope), e.typeOfExpr(n.Value, scope)
		if k != nil && v != nil {
			return types.NewMap(k, v)
		}
	case *ast.StructType:
		if n.Fields == nil || len(n.Fields.List) == 0 {
			return types.NewStruct(nil, nil)
		}
	case *ast.Ident:
		if o := scope.Scope().Lookup(n.Name); o != nil {
			if tn, ok := o.(*types.TypeName); ok {
				return tn.Type()
			}
		}
		if o := types.Universe.Lookup(n.Name); o != nil {
			if tn, ok := o.(*types.TypeName); ok {
				return tn.Type()
			}
		}
	case *ast.SelectorExpr:
		if id, ok := n.X.(*ast.Ident); ok {
			if p := e.pkgByNameFrom(scope, id.Name); p != nil {
				if o := p.Scope().Lookup(n.Sel.Name); o != nil {
					if tn, ok := o.(*types.TypeName); ok {
						return tn.Type()
					}
				}
			}
		}
	}
	return nil
}

func ghostType(s string) types.Type {
	switch s {
	case "bool":
		return types.Typ[types.Bool]
	case "int":
		return types.Typ[types.Int]
	case "int64":
		return types.Typ[types.Int64]
	case "uint64":
		return types.Typ[types.Uint64]
	case "uint32":
		return types.Typ[types.Uint32]
	case "string":
		return types.Typ[types.String]
	}
	panic("unsupported ghost type " + s)
}

// wellFormed assumes representation invariants of an input value.
func (x *Exec) wellFormed(v Val, st *State) {
	sh := shape(v.T)
	for i, l := range sh {
		switch {
		case l.isRef():
			x.c.Assume(Op("bvult", SBool, v.L[i], st.ctr))
		case strings.HasSuffix(l.Path, "#id") && l.Sort == SBV(64):
			x.c.Assume(olderSliceID(v.L[i], st.sctr, st.ctr))
		case strings.HasSuffix(l.Path, "#len"):
			x.c.Assume(Op("bvsle", SBool, BVLit(0, 64), v.L[i]))
			if i+1 < len(sh) && strings.HasSuffix(sh[i+1].Path, "#cap") {
				x.c.Assume(Op("bvsle", SBool, v.L[i], v.L[i+1]))
			}
			if i > 0 && strings.HasSuffix(sh[i-1].Path, "#id") {
				// nil slice has length 0
				x.c.Assume(Imp(Eq(v.L[i-1], BVLit(0, 64)), Eq(v.L[i], BVLit(0, 64))))
			}
		}
	}
}

// frameObligations: everything not named by the assigns clause is unchanged for
// every object that existed at entry.
func (x *Exec) frameObligations(ct *Contract, fn *ssa.Function, env *specEnv, entry *State, r Ret) {
	// collect covered (key → list of base refs); nil list + whole=true means whole array may change
	type cov struct {
		refs  []Term
		whole bool
	}
	covered := map[string]*cov{}
	// map entries named by the assigns clause: map type key -> (map ref, key) pairs
	type mapEntry struct{ ref, key Term }
	coveredMap := map[string][]mapEntry{}
	x.specDepth++
	for _, a := range ct.Assigns {
		if mt, ref, key, ok := x.mapIndexTarget(a, env); ok {
			tk := "map:" + typeKey(mt) + "|"
			coveredMap[tk] = append(coveredMap[tk], mapEntry{ref, key})
			continue
		}
		addr, ok := x.evalAddr(a, env)
		if !ok || addr.Kind != addrObj {
			eff := newEffects()
			x.assignExprEffects(ct, a, eff, fn)
			for k := range x.reg.sorts {
				if eff.matches(k) {
					if covered[k] == nil {
						covered[k] = &cov{}
					}
					covered[k].whole = true
				}
			}
			continue
		}
		for _, l := range shape(addr.FT) {
			k := objKey(addr.Obj, joinPath(addr.Path, l.Path))
			if covered[k] == nil {
				covered[k] = &cov{}
			}
			covered[k].refs = append(covered[k].refs, addr.Base)
		}
	}
	x.specDepth--
	var keys []string
	for k := range r.st.heap {
		keys = append(keys, k)
	}
	sort.Strings(keys)
	var frameViol []Term
	var frameKeys []string
	for _, k := range keys {
		if strings.HasPrefix(k, "map:") {
			// maps existing at entry change only at the entries named by the assigns clause
			srt := x.reg.sorts[k]
			before := x.heapGet(entry, k, srt)
			after := r.st.heap[k]
			if before.S == after.S {
				continue
			}
			if c := covered[k]; c != nil && c.whole {
				continue
			}
			ks, inner := arrSorts(srt)
			if ks != SRef {
				continue
			}
			kk, _ := arrSorts(inner)
			rr := x.c.Fresh("frame_m", SRef)
			fk := x.c.Fresh("frame_k", kk)
			conds := []Term{Op("bvult", SBool, rr, x.c.Named("ctr0", SRef)), Not(Eq(rr, BVLit(0, 32)))}
			tk := k[:strings.Index(k, "|")+1]
			for _, me := range coveredMap[tk] {
				conds = append(conds, Not(And(Eq(rr, me.ref), Eq(fk, me.key))))
			}
			conds = append(conds, Not(Eq(Select(Select(before, rr), fk), Select(Select(after, rr), fk))))
			frameViol = append(frameViol, x.c.Define("frame", And(conds...)))
			frameKeys = append(frameKeys, k)
			continue
		}
		if strings.HasPrefix(k, "slice:") {
			continue // slice backing stores are not framed (noted)
		}
		srt := x.reg.sorts[k]
		ks, _ := arrSorts(srt)
		if ks != SRef {
			continue
		}
		before := x.heapGet(entry, k, srt)
		after := r.st.heap[k]
		if before.S == after.S {
			continue
		}
		c := covered[k]
		if c != nil && c.whole {
			continue
		}
		rr := x.c.Fresh("frame_r", SRef)
		conds := []Term{Op("bvult", SBool, rr, x.c.Named("ctr0", SRef))}
		if c != nil {
			for _, b := range c.refs {
				conds = append(conds, Not(Eq(rr, b)))
			}
		}
		conds = append(conds, Not(Eq(Select(before, rr), Select(after, rr))))
		frameViol = append(frameViol, x.c.Define("frame", And(conds...)))
		frameKeys = append(frameKeys, k)
	}
	if len(frameViol) > 0 {
		name := fmt.Sprintf("%s#assigns", x.fname())
		x.addObl(name, "assigns", "only the locations named in the assigns clause change (objects existing at entry)", ct.Props,
			OblPart{NegGoal: And(r.reach, Or(frameViol...)), NAssume: len(x.c.Assumes), Where: fmt.Sprintf("return; heap keys %v", frameKeys)}, false)
	}
	// ghosts
	allowed := map[string]bool{}
	for _, a := range ct.Assigns {
		if g, ok := ghostName(a); ok {
			allowed[g] = true
		}
	}
	for _, cl := range ct.Sets {
		allowed[cl.Label] = true
	}
	for g := range entry.ghost {
		if strings.HasPrefix(g, "recv$") {
			allowed[g] = true // channel history, not a declared ghost
		}
	}
	for g, v0 := range entry.ghost {
		if allowed[g] {
			continue
		}
		v1 := r.st.ghost[g]
		if eqVal(v0, v1).IsTrue() {
			continue
		}
		name := fmt.Sprintf("%s#assigns", x.fname())
		x.addObl(name, "assigns", "only the locations named in the assigns clause change", ct.Props,
			OblPart{NegGoal: And(r.reach, Not(eqVal(v0, v1))), NAssume: len(x.c.Assumes), Where: "ghost." + g}, false)
	}
}

func ghostName(a ast.Expr) (string, bool) {
	if se, ok := a.(*ast.SelectorExpr); ok {
		if id, ok := se.X.(*ast.Ident); ok && id.Name == "ghost" {
			return se.Sel.Name, true
		}
	}
	return "", false
}

// cexOf lists the scalar leaves of a value (and, for pointers to structs, of
// the pointee's fields in state st, to the given depth) for counterexamples.
func (x *Exec) cexOf(name string, v Val, st *State, depth int) []CexTerm {
	var out []CexTerm
	if v.A != nil || v.C != nil || v.T == nil {
		return nil
	}
	sh := shape(v.T)
	if len(sh) != len(v.L) {
		return nil
	}
	for i, l := range sh {
		n := name
		if l.Path != "" {
			n += "." + l.Path
		}
		out = append(out, CexTerm{n, v.L[i]})
	}
	if depth > 0 {
		if pt, ok := v.T.Underlying().(*types.Pointer); ok {
			if stt, ok := pt.Elem().Underlying().(*types.Struct); ok && len(v.L) == 1 {
				for _, l := range shape(pt.Elem()) {
					if l.Sort.IsArr() {
						continue
					}
					key := objKey(pt.Elem(), l.Path)
					arr := x.heapGet(st, key, SArr(SRef, l.Sort))
					out = append(out, CexTerm{name + "->" + l.Path, Select(arr, v.L[0])})
				}
				_ = stt
			}
		}
	}
	return out
}
