package main

// Encapsulated fields (ownership / frame conditions).
//
//   //@ encapsulated @C09,C10 SwapService.activeSwaps writers (*SwapService).lockSwap (*SwapService).RemoveActiveSwap NewSwapService
//
// declares that the map held in the field is owned by its struct: it is
// read only inside the struct's own methods and modified only by the listed
// writer functions. The declaration is checked by a scan of the SSA of every
// function of the module (obligations `<Type>.<field>#encapsulated[...]`):
//
//   access    the field is selected only in methods of the type (or writers);
//             its address is only loaded from / stored to, stores only in writers
//   no-escape the loaded map reference is only looked up, ranged over, measured,
//             updated or deleted from; it is never stored, passed, returned or
//             converted; updates and deletes happen only in writers
//   exclusive no other value of the same map type exists in the module (so the
//             type-indexed heap arrays of the model hold this field's maps only);
//             the owning struct is never converted to an interface
//
// What it buys (the frame rule used by the symbolic execution): a call whose
// callees, in the class-hierarchy call graph of the module extended with the
// callbacks an external function may invoke synchronously (function-typed
// arguments, methods of interface-typed arguments), cannot reach a writer
// leaves the field and the map contents unchanged, whatever else the call's
// default frame havocs.
//
// Trusted: no reflection/unsafe access to the field; external (body-less)
// functions call back into the module only through their arguments as
// described; asynchronous callbacks are other schedules, not part of a call.

import (
	"fmt"
	"go/types"
	"os"
	"sort"
	"strings"

	"golang.org/x/tools/go/callgraph"
	"golang.org/x/tools/go/callgraph/cha"
	"golang.org/x/tools/go/callgraph/vta"
	"golang.org/x/tools/go/ssa"
	"golang.org/x/tools/go/ssa/ssautil"
)

type EncapDecl struct {
	PkgPath  string
	TypeName string
	Field    string
	Writers  []string
	Props    []string
	File     string
	Line     int
}

type encapInfo struct {
	decl      *EncapDecl
	fieldKey  string
	mapPrefix string
	writers   map[*ssa.Function]bool
	viol      map[string][]string // rule -> violations
	reach     map[*ssa.Function]bool
	witness   map[*ssa.Function]*ssa.Function // next hop towards a writer
}

type encapState struct {
	infos []*encapInfo
	graph *callgraph.Graph
	extra map[*ssa.CallCommon][]*ssa.Function // callbacks external callees may invoke
	stale []string
}

func outermost(f *ssa.Function) *ssa.Function {
	for f.Parent() != nil {
		f = f.Parent()
	}
	return f
}

func (e *Engine) moduleFunc(f *ssa.Function) bool {
	o := outermost(f)
	if o.Pkg == nil || o.Pkg.Pkg == nil {
		// methods of instantiated generics / wrappers: attribute by object package
		if o.Object() != nil && o.Object().Pkg() != nil {
			return strings.HasPrefix(o.Object().Pkg().Path(), e.modulePath)
		}
		return false
	}
	return strings.HasPrefix(o.Pkg.Pkg.Path(), e.modulePath)
}

// encaps computes (once) the encapsulation facts of all declarations.
func (e *Engine) encaps() *encapState {
	if e.encap != nil {
		return e.encap
	}
	es := &encapState{extra: map[*ssa.CallCommon][]*ssa.Function{}}
	e.encap = es
	if len(e.cs.Encaps) == 0 {
		return es
	}
	all := ssautil.AllFunctions(e.prog)
	var modFns []*ssa.Function
	for f := range all {
		if len(f.Blocks) > 0 && e.moduleFunc(f) {
			modFns = append(modFns, f)
		}
	}
	sort.Slice(modFns, func(i, j int) bool { return modFns[i].String() < modFns[j].String() })

	for _, d := range e.cs.Encaps {
		info := &encapInfo{decl: d, writers: map[*ssa.Function]bool{}, viol: map[string][]string{}}
		pkg := e.typesPkg(d.PkgPath)
		if pkg == nil {
			es.stale = append(es.stale, fmt.Sprintf("%s:%d: encapsulated: unknown package", d.File, d.Line))
			continue
		}
		obj := pkg.Scope().Lookup(d.TypeName)
		if obj == nil {
			es.stale = append(es.stale, fmt.Sprintf("%s:%d: encapsulated: unknown type %s", d.File, d.Line, d.TypeName))
			continue
		}
		named := obj.Type()
		stt, ok := named.Underlying().(*types.Struct)
		if !ok {
			es.stale = append(es.stale, fmt.Sprintf("%s:%d: encapsulated: %s is not a struct", d.File, d.Line, d.TypeName))
			continue
		}
		fidx := -1
		for k := 0; k < stt.NumFields(); k++ {
			if stt.Field(k).Name() == d.Field {
				fidx = k
			}
		}
		if fidx < 0 {
			es.stale = append(es.stale, fmt.Sprintf("%s:%d: encapsulated: %s has no field %s", d.File, d.Line, d.TypeName, d.Field))
			continue
		}
		ft := stt.Field(fidx).Type()
		mt, isMap := ft.Underlying().(*types.Map)
		if !isMap {
			es.stale = append(es.stale, fmt.Sprintf("%s:%d: encapsulated: field %s is not a map", d.File, d.Line, d.Field))
			continue
		}
		_ = mt
		info.fieldKey = objKey(named, d.Field)
		info.mapPrefix = "map:" + typeKey(ft) + "|"
		for _, w := range d.Writers {
			f := e.funcs[d.PkgPath+"::"+w]
			if f == nil {
				es.stale = append(es.stale, fmt.Sprintf("%s:%d: encapsulated: unknown writer %s", d.File, d.Line, w))
				continue
			}
			info.writers[f] = true
		}
		isOwn := func(f *ssa.Function) bool {
			o := outermost(f)
			if info.writers[o] {
				return true
			}
			if o.Signature.Recv() == nil {
				return false
			}
			rt := o.Signature.Recv().Type()
			if p, ok := rt.(*types.Pointer); ok {
				rt = p.Elem()
			}
			return types.Identical(rt, named)
		}
		isWriter := func(f *ssa.Function) bool { return info.writers[outermost(f)] }
		add := func(rule, format string, args ...interface{}) {
			info.viol[rule] = append(info.viol[rule], fmt.Sprintf(format, args...))
		}
		pos := func(f *ssa.Function, i ssa.Instruction) string {
			p := e.fset.Position(i.Pos())
			if !p.IsValid() {
				return f.String()
			}
			return fmt.Sprintf("%s (%s:%d)", f.String(), strings.TrimPrefix(p.Filename, e.repo+"/"), p.Line)
		}
		// the allowed values of the map type: loads of the protected field, and
		// fresh maps in writers that are only stored into the protected field
		allowedVal := map[ssa.Value]bool{}
		checkMapRef := func(f *ssa.Function, v ssa.Value) {
			allowedVal[v] = true
			for _, r := range *v.Referrers() {
				switch u := r.(type) {
				case *ssa.Lookup:
					if u.X != v {
						add("no-escape", "%s: map used as a key", pos(f, u))
					}
				case *ssa.Range:
				case *ssa.DebugRef:
				case *ssa.MapUpdate:
					if u.Map != v {
						add("no-escape", "%s: map stored into another map", pos(f, u))
					} else if !isWriter(f) {
						add("no-escape", "%s: map updated outside the declared writers", pos(f, u))
					}
				case *ssa.BinOp: // comparison with nil
				case ssa.CallInstruction:
					b, isB := u.Common().Value.(*ssa.Builtin)
					if !isB || (b.Name() != "len" && b.Name() != "delete") {
						add("no-escape", "%s: map passed to a call", pos(f, u))
					} else if b.Name() == "delete" && !isWriter(f) {
						add("no-escape", "%s: entry deleted outside the declared writers", pos(f, u))
					}
				default:
					add("no-escape", "%s: map reference escapes (%T)", pos(f, r), r)
				}
			}
		}
		for _, f := range modFns {
			for _, b := range f.Blocks {
				for _, ins := range b.Instrs {
					switch i := ins.(type) {
					case *ssa.FieldAddr:
						pt, ok := i.X.Type().Underlying().(*types.Pointer)
						if !ok || !types.Identical(pt.Elem(), named) || i.Field != fidx {
							continue
						}
						if !isOwn(f) {
							add("access", "%s: field selected outside the type's methods", pos(f, i))
						}
						for _, r := range *i.Referrers() {
							switch u := r.(type) {
							case *ssa.UnOp:
								checkMapRef(f, u)
							case *ssa.Store:
								if u.Addr != i {
									add("access", "%s: field address stored", pos(f, u))
								} else {
									if !isWriter(f) {
										add("access", "%s: field assigned outside the declared writers", pos(f, u))
									}
									if mm, ok := u.Val.(*ssa.MakeMap); ok {
										allowedVal[mm] = true
										for _, r2 := range *mm.Referrers() {
											if r2 != u {
												if _, dbg := r2.(*ssa.DebugRef); !dbg {
													add("no-escape", "%s: fresh map used other than being stored into the field", pos(f, r2))
												}
											}
										}
									} else {
										add("access", "%s: field assigned from an existing map", pos(f, u))
									}
								}
							case *ssa.DebugRef:
							default:
								add("access", "%s: field address escapes (%T)", pos(f, r), r)
							}
						}
					case *ssa.Field:
						if types.Identical(i.X.Type(), named) && i.Field == fidx {
							add("access", "%s: field read from a struct copy", pos(f, i))
						}
					case *ssa.MakeInterface:
						t := i.X.Type()
						if p, ok := t.(*types.Pointer); ok {
							t = p.Elem()
						}
						if types.Identical(t, named) {
							add("exclusive", "%s: %s converted to an interface", pos(f, i), d.TypeName)
						}
					}
				}
			}
		}
		// exclusive: no other value of the map type
		for _, f := range modFns {
			chk := func(v ssa.Value, where string) {
				if v == nil || v.Type() == nil {
					return
				}
				if _, isMapT := v.Type().Underlying().(*types.Map); !isMapT {
					return
				}
				if types.Identical(v.Type(), ft) && !allowedVal[v] {
					add("exclusive", "%s: another value of type %s (%s)", where, typeKey(ft), v.Name())
				}
			}
			for _, p := range f.Params {
				chk(p, f.String()+" parameter")
			}
			for _, fv := range f.FreeVars {
				chk(fv, f.String()+" free variable")
			}
			for _, b := range f.Blocks {
				for _, ins := range b.Instrs {
					if v, ok := ins.(ssa.Value); ok {
						chk(v, pos(f, ins))
					}
				}
			}
		}
		es.infos = append(es.infos, info)
	}
	if len(es.infos) == 0 {
		return es
	}
	// call graph: CHA plus the synchronous callbacks of external callees
	// variable-type analysis refines the class-hierarchy graph: calls through
	// function values go only to the functions that can flow there
	es.graph = vta.CallGraph(all, cha.CallGraph(e.prog))
	addrTaken := map[string][]*ssa.Function{} // signature -> functions used as values
	for _, f := range modFns {
		for _, b := range f.Blocks {
			for _, ins := range b.Instrs {
				for _, op := range ins.Operands(nil) {
					if op == nil || *op == nil {
						continue
					}
					var fn *ssa.Function
					switch v := (*op).(type) {
					case *ssa.Function:
						fn = v
					case *ssa.MakeClosure:
						fn, _ = v.Fn.(*ssa.Function)
					}
					if fn == nil {
						continue
					}
					if ci, ok := ins.(ssa.CallInstruction); ok && ci.Common().Value == *op {
						continue // direct call, not a value use
					}
					k := types.TypeString(fn.Signature, nil)
					addrTaken[k] = append(addrTaken[k], fn)
				}
			}
		}
	}
	wellKnown := map[string]bool{"Error": true, "String": true, "Format": true, "GoString": true, "MarshalJSON": true,
		"UnmarshalJSON": true, "MarshalText": true, "UnmarshalText": true, "Write": true, "Read": true, "Close": true}
	// module named types and their method sets, for interface-typed arguments
	var modTypes []types.Type
	for _, p := range e.pkgs {
		if !strings.HasPrefix(p.PkgPath, e.modulePath) || p.Types == nil {
			continue
		}
		sc := p.Types.Scope()
		for _, n := range sc.Names() {
			if tn, ok := sc.Lookup(n).(*types.TypeName); ok && !tn.IsAlias() {
				if _, isIface := tn.Type().Underlying().(*types.Interface); isIface {
					continue
				}
				modTypes = append(modTypes, tn.Type(), types.NewPointer(tn.Type()))
			}
		}
	}
	methodsFor := func(it *types.Interface) []*ssa.Function {
		var out []*ssa.Function
		for _, t := range modTypes {
			if it.NumMethods() > 0 && !types.Implements(t, it) {
				continue
			}
			ms := e.prog.MethodSets.MethodSet(t)
			for k := 0; k < ms.Len(); k++ {
				sel := ms.At(k)
				name := sel.Obj().Name()
				want := false
				if it.NumMethods() == 0 {
					want = wellKnown[name]
				} else {
					for m := 0; m < it.NumMethods(); m++ {
						if it.Method(m).Name() == name {
							want = true
						}
					}
				}
				if want {
					if fn := e.prog.MethodValue(sel); fn != nil {
						out = append(out, fn)
					}
				}
			}
		}
		return out
	}
	ifaceCache := map[string][]*ssa.Function{}
	for _, f := range modFns {
		node := es.graph.Nodes[f]
		for _, b := range f.Blocks {
			for _, ins := range b.Instrs {
				ci, ok := ins.(ssa.CallInstruction)
				if !ok {
					continue
				}
				cc := ci.Common()
				external := false
				if node != nil {
					for _, ed := range node.Out {
						if ed.Site == ci && len(ed.Callee.Func.Blocks) == 0 {
							external = true
						}
					}
				}
				if sf, ok := cc.Value.(*ssa.Function); ok && len(sf.Blocks) == 0 {
					external = true
				}
				if !external {
					continue
				}
				for _, a := range cc.Args {
					switch v := a.(type) {
					case *ssa.Function:
						es.extra[cc] = append(es.extra[cc], v)
						continue
					case *ssa.MakeClosure:
						if fn, ok := v.Fn.(*ssa.Function); ok {
							es.extra[cc] = append(es.extra[cc], fn)
						}
						continue
					case *ssa.MakeInterface:
						// dynamic type known: its well-known / interface methods
						ms := e.prog.MethodSets.MethodSet(v.X.Type())
						for k := 0; k < ms.Len(); k++ {
							if fn := e.prog.MethodValue(ms.At(k)); fn != nil && e.moduleFunc(fn) {
								es.extra[cc] = append(es.extra[cc], fn)
							}
						}
						continue
					}
					switch t := a.Type().Underlying().(type) {
					case *types.Signature:
						es.extra[cc] = append(es.extra[cc], addrTaken[types.TypeString(t, nil)]...)
					case *types.Interface:
						k := types.TypeString(a.Type(), nil)
						if _, ok := ifaceCache[k]; !ok {
							ifaceCache[k] = methodsFor(t)
						}
						es.extra[cc] = append(es.extra[cc], ifaceCache[k]...)
					}
				}
			}
		}
	}
	// reverse reachability from the writers
	callers := map[*ssa.Function][]*ssa.Function{}
	for f, n := range es.graph.Nodes {
		if f == nil {
			continue
		}
		for _, ed := range n.Out {
			if _, isGo := ed.Site.(*ssa.Go); isGo {
				// a goroutine started by the call runs concurrently: its effects
				// belong to other schedules, not to the call (concurrency is not modelled)
				continue
			}
			callers[ed.Callee.Func] = append(callers[ed.Callee.Func], f)
		}
	}
	for _, f := range modFns {
		for _, b := range f.Blocks {
			for _, ins := range b.Instrs {
				if ci, ok := ins.(ssa.CallInstruction); ok {
					for _, cb := range es.extra[ci.Common()] {
						callers[cb] = append(callers[cb], f)
					}
				}
			}
		}
	}
	for _, info := range es.infos {
		info.reach = map[*ssa.Function]bool{}
		info.witness = map[*ssa.Function]*ssa.Function{}
		var work []*ssa.Function
		for w := range info.writers {
			info.reach[w] = true
			work = append(work, w)
		}
		for len(work) > 0 {
			f := work[len(work)-1]
			work = work[:len(work)-1]
			for _, c := range callers[f] {
				if !info.reach[c] {
					info.reach[c] = true
					info.witness[c] = f
					work = append(work, c)
				}
			}
		}
	}
	return es
}

// siteCallees returns the possible callees of a call site in function f.
func (es *encapState) siteCallees(f *ssa.Function, cc *ssa.CallCommon) ([]*ssa.Function, bool) {
	if es.graph == nil {
		return nil, false
	}
	node := es.graph.Nodes[f]
	if node == nil {
		return nil, false
	}
	var out []*ssa.Function
	found := false
	for _, ed := range node.Out {
		if ed.Site != nil && ed.Site.Common() == cc {
			found = true
			out = append(out, ed.Callee.Func)
		}
	}
	out = append(out, es.extra[cc]...)
	return out, found || len(es.extra[cc]) > 0
}

// preservedKeys: the heap keys (exact field keys and map-key prefixes) that the
// call at cc in f cannot change, by encapsulation.
func (x *Exec) preservedBy(f *ssa.Function, cc *ssa.CallCommon) (exact []string, prefixes []string) {
	es := x.e.encaps()
	if len(es.infos) == 0 || cc == nil || f == nil {
		return nil, nil
	}
	callees, ok := es.siteCallees(f, cc)
	if !ok {
		return nil, nil
	}
	for _, info := range es.infos {
		if len(info.viol) > 0 {
			continue
		}
		may := false
		for _, c := range callees {
			if info.reach[c] {
				may = true
				if os.Getenv("GOVC_ENCAP_DEBUG") != "" {
					fmt.Fprintf(os.Stderr, "encap: call in %s may reach a writer: %s\n", f.String(), es.witnessPath(info, c))
				}
				break
			}
		}
		if !may {
			exact = append(exact, info.fieldKey)
			prefixes = append(prefixes, info.mapPrefix)
			x.c.Note("frame by encapsulation: calls that cannot reach a writer of %s.%s leave it unchanged", info.decl.TypeName, info.decl.Field)
		}
	}
	return
}

// protect returns the effects of the call at x.curCC restricted by encapsulation.
func (x *Exec) protect(eff *Effects) *Effects {
	exact, prefixes := x.preservedBy(x.curFn, x.curCC)
	if len(exact) == 0 && len(prefixes) == 0 {
		return eff
	}
	out := newEffects()
	out.add(eff)
	out.ExceptExact = append(append([]string{}, eff.ExceptExact...), exact...)
	out.ExceptPrefix = append(append([]string{}, eff.ExceptPrefix...), prefixes...)
	return out
}

// addEncapsulation reports the declarations' scan results as obligations.
func (r *Run) addEncapsulation(prop string) {
	es := r.eng.encaps()
	for _, s := range es.stale {
		r.Stale = append(r.Stale, s)
	}
	for _, info := range es.infos {
		if !hasProp(info.decl.Props, prop) {
			continue
		}
		d := info.decl
		x := &Exec{e: r.eng, c: NewCtx(), reg: &heapReg{sorts: map[string]Sort{}}, obls: map[string]*Oblig{},
			inlined: map[string]bool{}, havocked: map[string]bool{}, usedContracts: map[string]bool{},
			knownNonNil: map[string]bool{}, globalsSeen: map[string]bool{}, nameOverride: "encapsulated." + d.TypeName + "." + d.Field}
		x.top = r.anyFunction(d.PkgPath)
		x.ct = &Contract{PkgPath: d.PkgPath, Name: "encapsulated." + d.TypeName + "." + d.Field, Props: d.Props, Loops: map[int][]*Clause{}}
		for _, rule := range []string{"access", "no-escape", "exclusive"} {
			name := fmt.Sprintf("encapsulated.%s.%s[%s]", d.TypeName, d.Field, rule)
			text := map[string]string{
				"access":    "the field is selected only in the type's methods; assigned only in the declared writers",
				"no-escape": "the map reference never escapes; entries are updated or deleted only in the declared writers",
				"exclusive": "no other value of the map type exists in the module; the owner is never converted to an interface",
			}[rule]
			v := info.viol[rule]
			goal := TFalse
			where := "SSA scan of every function of the module"
			if len(v) > 0 {
				goal = TTrue
				sort.Strings(v)
				if len(v) > 6 {
					v = append(v[:6], fmt.Sprintf("... %d more", len(v)-6))
				}
				where = strings.Join(v, "; ")
			}
			x.addObl(name, "encapsulated", text, d.Props, OblPart{NegGoal: goal, NAssume: 0, Where: where}, false)
		}
		x.coverReach = TTrue
		r.addExec(x, prop)
	}
}

// encapWitness explains why f may reach a writer (diagnostics).
func (es *encapState) witnessPath(info *encapInfo, f *ssa.Function) string {
	var parts []string
	for k := 0; f != nil && k < 12; k++ {
		parts = append(parts, f.String())
		if info.writers[f] {
			break
		}
		f = info.witness[f]
	}
	return strings.Join(parts, " -> ")
}
