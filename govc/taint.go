package main

// Information-flow labels (C23). A value is *tainted* when the term that denotes
// it depends (through data or through the conditions of merged paths) on a
// secret source: a heap array of a field declared `secret`, a result of a
// function declared `secretresult`, or the text of a formatting call one of
// whose operands is an object holding secret fields. The check is a syntactic
// dependency analysis over the verification-condition terms (sound for explicit
// and for merged-path implicit flows; it over-approximates).

import (
	"fmt"
	"os"
	"go/types"
	"sort"
	"strings"
)

type secretInfo struct {
	fieldKeys  []string // heap key prefixes "type|Field" of secret fields
	holders    map[string]bool // typeKey of struct types with secret fields
	funcs      []string // symbol prefixes of secret results
	sinks      map[string][]string // "type|Field" -> properties
	allowed    map[string][]string // sink -> secret field keys it may depend on (onlysecret)
	built      bool
}

func (e *Engine) secretInfo() *secretInfo {
	if e.secrets != nil {
		return e.secrets
	}
	si := &secretInfo{holders: map[string]bool{}, sinks: map[string][]string{}, allowed: map[string][]string{}}
	e.secrets = si
	_ = os.Getenv
	for _, d := range e.cs.Secrets {
		pkg := e.typesPkg(d.PkgPath)
		if d.Kind == "onlysecret" && pkg != nil && len(d.Names) >= 1 {
			// onlysecret T.F S.G ...: the field may depend on the listed secrets only
			keyOf := func(n string) string {
				tf := strings.SplitN(n, ".", 2)
				if len(tf) != 2 {
					return ""
				}
				if obj := pkg.Scope().Lookup(tf[0]); obj != nil {
					return objKey(obj.Type(), tf[1])
				}
				return ""
			}
			sk := keyOf(d.Names[0])
			if sk != "" {
				si.sinks[sk] = d.Props
				si.allowed[sk] = []string{}
				for _, a := range d.Names[1:] {
					if k := keyOf(a); k != "" {
						si.allowed[sk] = append(si.allowed[sk], k)
					}
				}
			}
			continue
		}
		for _, n := range d.Names {
			switch d.Kind {
			case "secretresult":
				si.funcs = append(si.funcs, sanitize(n)+"_r0") // the first result is the secret (not the error)
			case "secret", "nosecret":
				tf := strings.SplitN(n, ".", 2)
				if len(tf) != 2 || pkg == nil {
					continue
				}
				obj := pkg.Scope().Lookup(tf[0])
				if obj == nil {
					continue
				}
				key := objKey(obj.Type(), tf[1])
				if tf[1] == "*" {
					key = typeKey(obj.Type()) + "|" // every field
				}
				if d.Kind == "secret" {
					si.fieldKeys = append(si.fieldKeys, key)
					si.holders[typeKey(obj.Type())] = true
				} else {
					si.sinks[key] = d.Props
				}
			}
		}
	}
	sort.Strings(si.fieldKeys)
	return si
}

func keyHasPrefix(key, pre string) bool {
	if !strings.HasPrefix(key, pre) {
		return false
	}
	rest := key[len(pre):]
	return rest == "" || rest[0] == '.' || rest[0] == '#' || strings.HasSuffix(pre, "|")
}

// taintOf returns a description of a secret the terms depend on ("" if none).
func (x *Exec) taintOf(ts ...Term) string {
	return x.taintOfExcept(nil, ts...)
}

func (x *Exec) taintOfExcept(allowed []string, ts ...Term) string {
	si := x.e.secretInfo()
	if len(si.fieldKeys) == 0 && len(si.funcs) == 0 {
		return ""
	}
	free := x.c.DataSymbols(ts...)
	var syms []string
	for s := range free {
		syms = append(syms, s)
	}
	sort.Strings(syms)
	for _, s := range syms {
		if strings.HasPrefix(s, "TAINT_") {
			return "text formatted from " + strings.TrimPrefix(s, "TAINT_")
		}
		if key, ok := x.c.origin[s]; ok {
			for _, fk := range si.fieldKeys {
				ok := false
				for _, a := range allowed {
					if a == fk {
						ok = true
					}
				}
				if ok {
					continue
				}
				if keyHasPrefix(key, fk) {
					return "secret field " + fk[strings.LastIndex(fk, "/")+1:]
				}
			}
		}
		for _, f := range si.funcs {
			if strings.HasPrefix(s, f) {
				return "secret result " + strings.TrimSuffix(f, "_r0")
			}
		}
	}
	return ""
}

// sinkStore: a store into a field declared `nosecret` must not be tainted.
func (x *Exec) sinkStore(a *Addr, v Val, reach Term, where string) {
	if a == nil || a.Kind != addrObj || x.specDepth > 0 {
		return
	}
	si := x.e.secretInfo()
	if len(si.sinks) == 0 {
		return
	}
	key := objKey(a.Obj, a.Path)
	for sk, props := range si.sinks {
		if !keyHasPrefix(key, sk) && !(a.Path == "" && strings.HasPrefix(sk, typeKey(a.Obj)+"|")) {
			continue
		}
		val := v
		if a.Path == "" {
			// whole-struct store: only the sink field's leaves matter
			stt, ok := a.Obj.Underlying().(*types.Struct)
			if !ok {
				continue
			}
			fname := sk[strings.LastIndex(sk, "|")+1:]
			found := false
			for i := 0; i < stt.NumFields(); i++ {
				if stt.Field(i).Name() == fname {
					lo, hi := structFieldRange(stt, i)
					sv := x.scalarize(x.materialize(v, a.Obj))
					if hi <= len(sv.L) {
						val = Val{T: stt.Field(i).Type(), L: sv.L[lo:hi]}
						found = true
					}
				}
			}
			if !found {
				continue
			}
		}
		sv := x.scalarize(val)
		why := x.taintOfExcept(si.allowed[sk], sv.L...)
		if why != "" && os.Getenv("GOVC_DBG") == "taint" {
			var fs []string
			for k := range x.c.DataSymbols(sv.L...) {
				fs = append(fs, k)
			}
			sort.Strings(fs)
			fmt.Fprintf(os.Stderr, "DBG taint %s at %s: free=%v\n", why, where, fs)
		}
		name := fmt.Sprintf("%s#nosecret[%s]", x.fname(), sk[strings.LastIndex(sk, "/")+1:])
		goal := TTrue
		text := "no value that depends on a secret is stored into this field (it is sent to the peer or persisted for sending)"
		if why != "" {
			goal = TFalse
			where += " (the stored value depends on " + why + ")"
		}
		x.addObl(name, "nosecret", text, props, OblPart{NegGoal: And(reach, Not(goal)), NAssume: len(x.c.Assumes), Where: where}, false)
	}
}
