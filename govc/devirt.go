package main

// Devirtualisation of interface method calls on small module interfaces: the
// call is executed for every module type that implements the interface (class
// hierarchy analysis), each under the condition that the dynamic type tag is
// that type, and the results are merged. An unknown dynamic type yields an
// arbitrary result (and the usual havoc).

import (
	"go/types"
	"sort"
	"strings"

	"golang.org/x/tools/go/ssa"
)

const maxDevirtImpls = 24

// implementations lists the module types (T and *T) whose method set
// implements iface, with the SSA function for the method.
func (e *Engine) implementations(iface *types.Interface, method string) []devImpl {
	var out []devImpl
	for _, p := range e.pkgs {
		if !strings.HasPrefix(p.PkgPath, e.modulePath) || p.Types == nil {
			continue
		}
		scope := p.Types.Scope()
		for _, n := range scope.Names() {
			tn, ok := scope.Lookup(n).(*types.TypeName)
			if !ok || tn.IsAlias() {
				continue
			}
			if _, isIface := tn.Type().Underlying().(*types.Interface); isIface {
				continue
			}
			for _, t := range []types.Type{tn.Type(), types.NewPointer(tn.Type())} {
				if !types.Implements(t, iface) {
					continue
				}
				sel := e.prog.MethodSets.MethodSet(t).Lookup(p.Types, method)
				if sel == nil {
					continue
				}
				fn := e.prog.MethodValue(sel)
				if fn == nil {
					continue
				}
				out = append(out, devImpl{dyn: t, fn: fn})
			}
		}
	}
	sort.Slice(out, func(i, j int) bool { return typeKey(out[i].dyn) < typeKey(out[j].dyn) })
	return out
}

type devImpl struct {
	dyn types.Type
	fn  *ssa.Function
}

// devirtualize returns (results, true) when the invoke could be resolved.
func (x *Exec) devirtualize(fr *frame, st *State, cc *ssa.CallCommon, recv Val, args []Val, reach Term) ([]Val, bool) {
	named, ok := cc.Value.Type().(*types.Named)
	if !ok || named.Obj().Pkg() == nil || !strings.HasPrefix(named.Obj().Pkg().Path(), x.e.modulePath) {
		return nil, false
	}
	iface, ok := named.Underlying().(*types.Interface)
	if !ok {
		return nil, false
	}
	key := typeKey(named) + "." + cc.Method.Name()
	impls, cached := x.e.implCache[key]
	if !cached {
		impls = x.e.implementations(iface, cc.Method.Name())
		x.e.implCache[key] = impls
	}
	if len(impls) == 0 || len(impls) > maxDevirtImpls {
		return nil, false
	}
	for _, im := range impls {
		// only tiny, same-package implementations (message kinds, string-like
		// error types): service interfaces keep their environment contracts
		if len(im.fn.Blocks) == 0 || len(im.fn.Blocks) > 6 || !x.canInline(im.fn, fr.depth+1) || funcPkgPath(im.fn) != named.Obj().Pkg().Path() {
			return nil, false
		}
	}
	sig := cc.Signature()
	var conds []Term
	var states []*State
	var results [][]Val
	for _, im := range impls {
		cond := Eq(recv.L[0], x.typeTag(im.dyn))
		sub := st.clone()
		rv := x.unbox(recv.L[1], im.dyn, And(reach, cond))
		res := x.inline(im.fn, append([]Val{rv}, args...), nil, sub, And(reach, cond), fr.depth+1)
		conds = append(conds, cond)
		states = append(states, sub)
		results = append(results, res)
		x.inlined[im.fn.String()] = true
	}
	// unknown dynamic type
	other := st.clone()
	x.havocCall(other, cc, "invoke with a dynamic type outside the module: "+key)
	otherRes := x.unknownDynResults(key, recv, sig, cc.Method.Name())
	// merge: start from "other", override per known implementation
	accSt := other
	acc := otherRes
	for i := range impls {
		accSt = x.mergeStates([]Term{Not(conds[i]), conds[i]}, []*State{accSt, states[i]})
		for k := range acc {
			acc[k] = iteVal(conds[i], results[i][k], acc[k])
		}
	}
	for k := range acc {
		for j := range acc[k].L {
			acc[k].L[j] = x.c.Define("dv", acc[k].L[j])
		}
	}
	*st = *accSt
	x.c.Note("interface call %s resolved over the %d module implementations (plus an arbitrary outcome for foreign dynamic types)", key, len(impls))
	return acc, true
}

// unknownDynResults: the results of an interface method on a dynamic type outside
// the module. For a parameterless method with one scalar result it is a
// deterministic (uninterpreted) function of the receiver, so that the code and a
// spec that mention the same call agree; otherwise arbitrary values.
func (x *Exec) unknownDynResults(key string, recv Val, sig *types.Signature, method string) []Val {
	if sig.Params().Len() == 0 && sig.Results().Len() == 1 && len(recv.L) == 2 {
		rt := sig.Results().At(0).Type()
		ls := shape(rt)
		if len(ls) == 1 {
			t := x.c.App("dyncall_"+sanitize(key), ls[0].Sort, recv.L[0], recv.L[1])
			return []Val{{T: rt, L: []Term{t}}}
		}
	}
	return x.freshResults(sig, "dyn_"+method)
}
