package main

// Evaluation of spec expressions (Go expression syntax + ==>, <==>, old(),
// mi() for 192-bit "mathint", ghost.X, result/resultN).

import (
	"fmt"
	"go/ast"
	"go/constant"
	"go/token"
	"go/types"
	"strconv"
	"strings"

	"golang.org/x/tools/go/ssa"
)

type specEnv struct {
	x       *Exec
	names   map[string]Val
	st      *State
	old     *State
	pkg     *types.Package
	results []Val
	sig     *types.Signature
	local   func(name string) (Val, bool) // local variables by source name (loop invariants, `debugnames`)
}

func (e *specEnv) with(st *State, extra map[string]Val) *specEnv {
	n := *e
	n.st = st
	n.names = map[string]Val{}
	for k, v := range e.names {
		n.names[k] = v
	}
	for k, v := range extra {
		n.names[k] = v
	}
	return &n
}

type specError struct{ msg string }

func specFail(format string, a ...interface{}) {
	panic(specError{fmt.Sprintf(format, a...)})
}

func (x *Exec) evalBool(e ast.Expr, env *specEnv, reach Term) Term {
	v := x.evalSpec(e, env, reach)
	if v.C != nil {
		if v.C.Kind() == constant.Bool {
			if constant.BoolVal(v.C) {
				return TTrue
			}
			return TFalse
		}
	}
	if len(v.L) != 1 || v.L[0].Sort != SBool {
		specFail("spec expression is not boolean: %s", exprString(e))
	}
	return x.c.Define("spec", v.L[0])
}

func exprString(e ast.Expr) string {
	var b strings.Builder
	ast.Fprint(&b, token.NewFileSet(), e, nil)
	return types.ExprString(e)
}

func (x *Exec) toMI(v Val) Term {
	if v.MI {
		return v.L[0]
	}
	if v.C != nil {
		s := constant.ToInt(v.C)
		if s.Kind() != constant.Int {
			specFail("non-integer constant in mathint context")
		}
		return bvFromDecimal(s.ExactString(), MIW)
	}
	if len(v.L) != 1 || !v.L[0].Sort.IsBV() {
		specFail("cannot widen %v to mathint", v.T)
	}
	return Extend(v.L[0], MIW, isSigned(v.T))
}

func (x *Exec) evalSpec(e ast.Expr, env *specEnv, reach Term) Val {
	switch n := e.(type) {
	case *ast.ParenExpr:
		return x.evalSpec(n.X, env, reach)
	case *ast.BasicLit:
		switch n.Kind {
		case token.INT:
			return Val{C: constant.MakeFromLiteral(n.Value, token.INT, 0)}
		case token.FLOAT:
			return Val{C: constant.MakeFromLiteral(n.Value, token.FLOAT, 0)}
		case token.STRING:
			s, _ := strconv.Unquote(n.Value)
			return Val{T: types.Typ[types.String], L: []Term{x.c.StrLit(s)}}
		case token.CHAR:
			return Val{C: constant.MakeFromLiteral(n.Value, token.CHAR, 0)}
		}
	case *ast.Ident:
		return x.specIdent(n, env)
	case *ast.SelectorExpr:
		return x.specSelector(n, env, reach)
	case *ast.StarExpr:
		p := x.evalSpec(n.X, env, reach)
		return x.load(env.st, x.toAddr(p), reach)
	case *ast.UnaryExpr:
		v := x.evalSpec(n.X, env, reach)
		switch n.Op {
		case token.NOT:
			if v.C != nil {
				return Val{C: constant.MakeBool(!constant.BoolVal(v.C))}
			}
			return Val{T: types.Typ[types.Bool], L: []Term{Not(v.L[0])}}
		case token.SUB:
			if v.C != nil {
				return Val{C: constant.UnaryOp(token.SUB, v.C, 0)}
			}
			if v.MI {
				return Val{MI: true, L: []Term{Op("bvneg", SBV(MIW), v.L[0])}}
			}
			return Val{T: v.T, L: []Term{Op("bvneg", v.L[0].Sort, v.L[0])}}
		case token.AND:
			// &x.f : address
			a, ok := x.evalAddr(n.X, env)
			if !ok {
				specFail("cannot take address of %s", exprString(n.X))
			}
			return Val{T: types.NewPointer(a.FT), A: a}
		}
	case *ast.BinaryExpr:
		return x.specBinary(n, env, reach)
	case *ast.CallExpr:
		return x.specCall(n, env, reach)
	case *ast.IndexExpr:
		base := x.evalSpec(n.X, env, reach)
		idx := x.evalSpec(n.Index, env, reach)
		switch u := base.T.Underlying().(type) {
		case *types.Map:
			k := x.scalarize(x.materialize(idx, u.Key()))
			v, _ := x.mapRead(env.st, base.T, base.L[0], k.L[0], reach)
			return v
		case *types.Slice:
			i := x.materialize(idx, types.Typ[types.Int])
			a := &Addr{Kind: addrElem, SliceID: base.L[0], Index: Extend(i.L[0], 64, true), ElemT: u.Elem(), FT: u.Elem()}
			return x.load(env.st, a, reach)
		case *types.Array:
			i := x.materialize(idx, types.Typ[types.Int])
			if len(base.L) == 1 && base.L[0].Sort.IsArr() {
				return Val{T: u.Elem(), L: []Term{Select(base.L[0], Extend(i.L[0], 64, true))}}
			}
		}
	}
	specFail("unsupported spec expression: %s (%T)", exprString(e), e)
	return Val{}
}

func (x *Exec) specIdent(n *ast.Ident, env *specEnv) Val {
	switch n.Name {
	case "true":
		return Val{T: types.Typ[types.Bool], L: []Term{TTrue}}
	case "false":
		return Val{T: types.Typ[types.Bool], L: []Term{TFalse}}
	case "nil":
		return Val{T: types.Typ[types.UntypedNil], L: []Term{BVLit(0, 32)}}
	case "result":
		if len(env.results) == 0 {
			specFail("'result' used where no result is available")
		}
		return env.results[0]
	}
	if strings.HasPrefix(n.Name, "result") {
		if k, err := strconv.Atoi(n.Name[6:]); err == nil {
			if k >= len(env.results) {
				specFail("%s: function has %d results", n.Name, len(env.results))
			}
			return env.results[k]
		}
	}
	if v, ok := env.names[n.Name]; ok {
		return v
	}
	if env.local != nil {
		if v, ok := env.local(n.Name); ok {
			return v
		}
	}
	// named results
	if env.sig != nil && env.results != nil {
		for k := 0; k < env.sig.Results().Len(); k++ {
			if env.sig.Results().At(k).Name() == n.Name {
				return env.results[k]
			}
		}
	}
	if env.pkg != nil {
		if obj := env.pkg.Scope().Lookup(n.Name); obj != nil {
			return x.specObject(obj, env)
		}
	}
	specFail("unknown identifier %q in spec", n.Name)
	return Val{}
}

func (x *Exec) specObject(obj types.Object, env *specEnv) Val {
	switch o := obj.(type) {
	case *types.Const:
		if b, ok := o.Type().(*types.Basic); ok && b.Info()&types.IsUntyped != 0 {
			return Val{C: o.Val()}
		}
		return x.constVal(o.Val(), o.Type())
	case *types.Var:
		// package-level variable
		sp := x.e.prog.Package(o.Pkg())
		if sp != nil {
			if g, ok := sp.Members[o.Name()].(*ssa.Global); ok {
				ref := x.globalRef(g)
				return x.load(env.st, &Addr{Kind: addrObj, Base: ref, Obj: o.Type(), FT: o.Type()}, TTrue)
			}
		}
	}
	specFail("unsupported object %s in spec", obj.Name())
	return Val{}
}

func (x *Exec) specSelector(n *ast.SelectorExpr, env *specEnv, reach Term) Val {
	if id, ok := n.X.(*ast.Ident); ok {
		if id.Name == "ghost" {
			g, ok := env.st.ghost[n.Sel.Name]
			if !ok {
				specFail("unknown ghost variable %q", n.Sel.Name)
			}
			return g
		}
		if _, shadow := env.names[id.Name]; !shadow {
			if p := x.e.pkgByNameFrom(env.pkg, id.Name); p != nil && (env.pkg == nil || env.pkg.Scope().Lookup(id.Name) == nil) {
				obj := p.Scope().Lookup(n.Sel.Name)
				if obj == nil {
					specFail("%s.%s not found", id.Name, n.Sel.Name)
				}
				return x.specObject(obj, env)
			}
		}
	}
	base := x.evalSpec(n.X, env, reach)
	return x.fieldOf(base, n.Sel.Name, env.st, reach)
}

func (x *Exec) fieldOf(base Val, name string, st *State, reach Term) Val {
	t := base.T
	if t == nil {
		specFail("selector .%s on untyped value", name)
	}
	obj, index, _ := types.LookupFieldOrMethod(t, true, nil, name)
	if obj == nil {
		// unexported fields need the package
		var pkg *types.Package
		tt := t
		if p, ok := tt.Underlying().(*types.Pointer); ok {
			tt = p.Elem()
		}
		if nn, ok := tt.(*types.Named); ok {
			pkg = nn.Obj().Pkg()
		}
		obj, index, _ = types.LookupFieldOrMethod(t, true, pkg, name)
	}
	fv, ok := obj.(*types.Var)
	if !ok || !fv.IsField() {
		specFail("no field %q in %v", name, t)
	}
	cur := base
	for _, fi := range index {
		if _, isPtr := cur.T.Underlying().(*types.Pointer); isPtr {
			a := x.toAddr(cur)
			stt := a.FT.Underlying().(*types.Struct)
			f := stt.Field(fi)
			nav := *a
			nav.Path = joinPath(a.Path, f.Name())
			nav.FT = f.Type()
			na := &nav
			if _, isStruct := f.Type().Underlying().(*types.Struct); isStruct {
				cur = Val{T: types.NewPointer(f.Type()), A: na}
				// keep as address for further selection; load at the end
				continue
			}
			cur = x.load(st, na, reach)
		} else {
			stt, ok := cur.T.Underlying().(*types.Struct)
			if !ok {
				specFail("selector on non-struct %v", cur.T)
			}
			lo, hi := structFieldRange(stt, fi)
			cur = Val{T: stt.Field(fi).Type(), L: append([]Term{}, cur.L[lo:hi]...)}
		}
	}
	if cur.A != nil {
		// struct-valued field selected as a value
		if _, isStruct := cur.A.FT.Underlying().(*types.Struct); isStruct && cur.T != nil {
			if p, ok := cur.T.(*types.Pointer); ok && p.Elem() == cur.A.FT && fv.Type() == cur.A.FT {
				return x.load(st, cur.A, reach)
			}
		}
	}
	return cur
}

// evalAddr evaluates an lvalue expression (p.f.g, *p, ghost excluded).
func (x *Exec) evalAddr(e ast.Expr, env *specEnv) (*Addr, bool) {
	defer func() {
		recover()
	}()
	switch n := e.(type) {
	case *ast.ParenExpr:
		return x.evalAddr(n.X, env)
	case *ast.StarExpr:
		p := x.evalSpec(n.X, env, TTrue)
		return x.toAddr(p), true
	case *ast.SelectorExpr:
		base := x.evalSpec(n.X, env, TTrue)
		var a *Addr
		if _, isPtr := base.T.Underlying().(*types.Pointer); isPtr {
			a = x.toAddr(base)
		} else {
			return nil, false
		}
		stt, ok := a.FT.Underlying().(*types.Struct)
		if !ok {
			return nil, false
		}
		for k := 0; k < stt.NumFields(); k++ {
			if stt.Field(k).Name() == n.Sel.Name {
				na := *a
				na.Path = joinPath(a.Path, n.Sel.Name)
				na.FT = stt.Field(k).Type()
				return &na, true
			}
		}
	}
	return nil, false
}

func (x *Exec) specBinary(n *ast.BinaryExpr, env *specEnv, reach Term) Val {
	boolV := func(t Term) Val { return Val{T: types.Typ[types.Bool], L: []Term{t}} }
	if n.Op == token.LAND || n.Op == token.LOR {
		a := x.evalBool(n.X, env, reach)
		var b Term
		if n.Op == token.LAND {
			b = x.evalBool(n.Y, env, And(reach, a))
			return boolV(And(a, b))
		}
		b = x.evalBool(n.Y, env, And(reach, Not(a)))
		return boolV(Or(a, b))
	}
	a := x.evalSpec(n.X, env, reach)
	b := x.evalSpec(n.Y, env, reach)
	if a.C != nil && b.C != nil {
		switch n.Op {
		case token.EQL, token.NEQ, token.LSS, token.LEQ, token.GTR, token.GEQ:
			return Val{C: constant.MakeBool(constant.Compare(a.C, n.Op, b.C))}
		case token.SHL, token.SHR:
			s, _ := constant.Uint64Val(b.C)
			return Val{C: constant.Shift(a.C, n.Op, uint(s))}
		case token.QUO:
			if a.C.Kind() == constant.Int && b.C.Kind() == constant.Int {
				return Val{C: constant.BinaryOp(a.C, token.QUO_ASSIGN, b.C)}
			}
		}
		return Val{C: constant.BinaryOp(a.C, n.Op, b.C)}
	}
	if a.MI || b.MI {
		p, q := x.toMI(a), x.toMI(b)
		s := SBV(MIW)
		switch n.Op {
		case token.ADD:
			return Val{MI: true, L: []Term{Op("bvadd", s, p, q)}}
		case token.SUB:
			return Val{MI: true, L: []Term{Op("bvsub", s, p, q)}}
		case token.MUL:
			return Val{MI: true, L: []Term{x.c.Arith("bvmul", s, p, q)}}
		case token.QUO:
			return Val{MI: true, L: []Term{x.c.Arith("bvsdiv", s, p, q)}}
		case token.REM:
			return Val{MI: true, L: []Term{x.c.Arith("bvsrem", s, p, q)}}
		case token.EQL:
			return boolV(Eq(p, q))
		case token.NEQ:
			return boolV(Not(Eq(p, q)))
		case token.LSS:
			return boolV(Op("bvslt", SBool, p, q))
		case token.LEQ:
			return boolV(Op("bvsle", SBool, p, q))
		case token.GTR:
			return boolV(Op("bvsgt", SBool, p, q))
		case token.GEQ:
			return boolV(Op("bvsge", SBool, p, q))
		}
		specFail("operator %s not supported on mathint", n.Op)
	}
	// nil comparisons with arbitrary reference-like values
	if n.Op == token.EQL || n.Op == token.NEQ {
		isNil := func(v Val) bool {
			bb, ok := v.T.(*types.Basic)
			return ok && bb.Kind() == types.UntypedNil
		}
		var other *Val
		if isNil(a) && !isNil(b) {
			other = &b
		} else if isNil(b) && !isNil(a) {
			other = &a
		}
		if other != nil {
			o := x.scalarize(*other)
			z := BVLit(0, o.L[0].Sort.Width())
			e := Eq(o.L[0], z)
			if n.Op == token.NEQ {
				e = Not(e)
			}
			return boolV(e)
		}
	}
	ta, tb := a.T, b.T
	if ta == nil {
		ta = tb
	}
	if tb == nil {
		tb = ta
	}
	// mixed-width machine integers in specs are a spec error (use mi())
	return x.binop(n.Op, a, b, ta, tb, resultType(n.Op, ta), reach, nil, token.NoPos)
}

func resultType(op token.Token, t types.Type) types.Type {
	switch op {
	case token.EQL, token.NEQ, token.LSS, token.LEQ, token.GTR, token.GEQ:
		return types.Typ[types.Bool]
	}
	return t
}

func (x *Exec) specCall(n *ast.CallExpr, env *specEnv, reach Term) Val {
	boolV := func(t Term) Val { return Val{T: types.Typ[types.Bool], L: []Term{t}} }
	if id, ok := n.Fun.(*ast.Ident); ok {
		if d, isDef := x.e.cs.Defines[id.Name]; isDef {
			if len(n.Args) != len(d.Params) {
				specFail("%s: %d arguments for %d parameters", d.Name, len(n.Args), len(d.Params))
			}
			names := map[string]Val{}
			for k, a := range n.Args {
				names[d.Params[k]] = x.evalSpec(a, env, reach)
			}
			de := *env
			de.names = names
			de.results = nil
			if p := x.e.typesPkg(d.PkgPath); p != nil {
				de.pkg = p
			}
			return x.evalSpec(d.Clause.Expr, &de, reach)
		}
		switch id.Name {
		case "__imp":
			a := x.evalBool(n.Args[0], env, reach)
			b := x.evalBool(n.Args[1], env, And(reach, a))
			return boolV(Imp(a, b))
		case "__iff":
			a := x.evalBool(n.Args[0], env, reach)
			b := x.evalBool(n.Args[1], env, reach)
			return boolV(Eq(a, b))
		case "old":
			if env.old == nil {
				specFail("old() used where no pre-state exists")
			}
			oe := *env
			oe.st = env.old
			oe.results = nil
			return x.evalSpec(n.Args[0], &oe, reach)
		case "mi":
			v := x.evalSpec(n.Args[0], env, reach)
			return Val{MI: true, L: []Term{x.toMI(v)}}
		case "allocated":
			// allocated(s): the slice is nil or its backing store was handed out by
			// make / append / an allocating library function before now
			a := x.evalSpec(n.Args[0], env, reach)
			if len(a.L) != 3 {
				specFail("allocated(): argument must be a slice")
			}
			return boolV(Or(Eq(a.L[0], BVLit(0, 64)), Op("bvult", SBool, a.L[0], env.st.sctr)))
		case "sameStore":
			// sameStore(s, t): the two slices share their backing store
			a := x.evalSpec(n.Args[0], env, reach)
			b := x.evalSpec(n.Args[1], env, reach)
			if len(a.L) != 3 || len(b.L) != 3 {
				specFail("sameStore(): arguments must be slices")
			}
			return boolV(Eq(a.L[0], b.L[0]))
		case "holds":
			// holds(&m): the current call chain holds mutex m (ghost lock-set)
			v := x.scalarize(x.evalSpec(n.Args[0], env, reach))
			if len(v.L) != 1 {
				specFail("holds(): argument must be the address of a mutex")
			}
			id := x.lockID(v)
			return boolV(Select(env.st.held, id))
		case "untainted":
			// untainted(e...): none of the values depends on a secret source (syntactic
			// dependency check over the terms, see taint.go)
			var ts []Term
			for _, a := range n.Args {
				v := x.evalSpec(a, env, reach)
				if v.C != nil {
					continue
				}
				ts = append(ts, x.scalarize(v).L...)
			}
			if why := x.taintOf(ts...); why != "" {
				x.c.Note("untainted(): the value depends on %s", why)
				return boolV(TFalse)
			}
			return boolV(TTrue)
		case "sprintf":
			// sprintf(format, a, b, ...): the text fmt.Sprintf produces (same symbol as the code's call)
			f0 := x.materialize(x.evalSpec(n.Args[0], env, reach), types.Typ[types.String])
			ts := []Term{f0.L[0]}
			et := types.NewInterfaceType(nil, nil)
			for _, a := range n.Args[1:] {
				v := x.evalSpec(a, env, reach)
				if v.C != nil {
					specFail("sprintf(): untyped constant operand")
				}
				iv := x.makeInterface(v, v.T, et)
				ts = append(ts, iv.L...)
			}
			return Val{T: types.Typ[types.String], L: []Term{x.c.App(fmt.Sprintf("sprintf_%d", len(n.Args)-1), SStr, ts...)}}
		case "nth":
			// nth(k, f(args)): the k-th result of a multi-result function call in a spec
			lit, ok := n.Args[0].(*ast.BasicLit)
			if !ok || len(n.Args) != 2 {
				specFail("nth(k, call): k must be a literal")
			}
			k, _ := strconv.Atoi(lit.Value)
			save := x.wantResult
			x.wantResult = k
			v := x.evalSpec(n.Args[1], env, reach)
			x.wantResult = save
			return v
		case "lastrecv":
			// lastrecv(ch): the value most recently received from the channel parameter ch
			// of the function under verification (ghost history of the channel)
			id, ok := n.Args[0].(*ast.Ident)
			if !ok {
				specFail("lastrecv(): argument must be a channel parameter name")
			}
			v, ok := env.st.ghost["recv$"+id.Name]
			if !ok {
				specFail("lastrecv(%s): no such channel parameter", id.Name)
			}
			return v
		case "visited":
			// visited(k): k was already delivered by the (single) map iteration of this function
			if len(x.visited) != 1 {
				specFail("visited(): the function must contain exactly one map iteration (found %d)", len(x.visited))
			}
			for _, vis := range x.visited {
				kk := x.scalarize(x.evalSpec(n.Args[0], env, reach))
				if kk.C != nil || len(kk.L) != 1 || kk.L[0].Sort != arrKeySort(vis.Sort) {
					specFail("visited(): key has the wrong type")
				}
				return boolV(Select(vis, kk.L[0]))
			}
		case "has":
			// has(m, k): map membership
			m := x.evalSpec(n.Args[0], env, reach)
			mt, ok := m.T.Underlying().(*types.Map)
			if !ok {
				specFail("has(): first argument is not a map")
			}
			k := x.scalarize(x.materialize(x.evalSpec(n.Args[1], env, reach), mt.Key()))
			_, present := x.mapRead(env.st, m.T, m.L[0], k.L[0], reach)
			return boolV(present)
		case "len":
			v := x.evalSpec(n.Args[0], env, reach)
			switch v.T.Underlying().(type) {
			case *types.Slice:
				return Val{T: types.Typ[types.Int], L: []Term{v.L[1]}}
			case *types.Basic:
				return Val{T: types.Typ[types.Int], L: []Term{x.c.App("strlen", SBV(64), v.L[0])}}
			case *types.Map:
				// the same uninterpreted function the code's len(m) uses
				n := x.c.App("maplen_"+typeKey(v.T), SBV(64), v.L[0], x.mapHasArr(env.st, v.T))
				return Val{T: types.Typ[types.Int], L: []Term{n}}
			}
			specFail("len of %v unsupported in spec", v.T)
		case "ite":
			c := x.evalBool(n.Args[0], env, reach)
			a := x.evalSpec(n.Args[1], env, reach)
			b := x.evalSpec(n.Args[2], env, reach)
			if a.MI || b.MI {
				return Val{MI: true, L: []Term{Ite(c, x.toMI(a), x.toMI(b))}}
			}
			if a.C != nil && b.C == nil {
				a = x.materialize(a, b.T)
			}
			if b.C != nil && a.C == nil {
				b = x.materialize(b, a.T)
			}
			return iteVal(c, a, b)
		case "uf":
			// uf("name", sortlike, args...) : uninterpreted spec function returning same type as 2nd arg
			name, _ := strconv.Unquote(n.Args[0].(*ast.BasicLit).Value)
			proto := x.evalSpec(n.Args[1], env, reach)
			var ts []Term
			for _, a := range n.Args[2:] {
				v := x.scalarize(x.evalSpec(a, env, reach))
				if v.C != nil {
					specFail("uf(): untyped constant argument")
				}
				ts = append(ts, v.L...)
			}
			if proto.C != nil {
				proto = x.materialize(proto, types.Typ[types.Int])
			}
			out := Val{T: proto.T, MI: proto.MI, L: make([]Term, len(proto.L))}
			for j := range proto.L {
				out.L[j] = x.c.App(fmt.Sprintf("spec_%s_%d", name, j), proto.L[j].Sort, ts...)
			}
			return out
		}
		// conversion to a basic type
		if tobj := types.Universe.Lookup(id.Name); tobj != nil {
			if tn, ok := tobj.(*types.TypeName); ok && len(n.Args) == 1 {
				v := x.evalSpec(n.Args[0], env, reach)
				if v.MI {
					// narrowing from mathint (spec writer's responsibility)
					w := basicSort(tn.Type().Underlying().(*types.Basic)).Width()
					return Val{T: tn.Type(), L: []Term{Extend(v.L[0], w, false)}}
				}
				if v.C != nil {
					return x.constVal(v.C, tn.Type())
				}
				return x.convert(v, v.T, tn.Type())
			}
		}
		if env.pkg != nil {
			if obj := env.pkg.Scope().Lookup(id.Name); obj != nil {
				switch o := obj.(type) {
				case *types.TypeName:
					v := x.evalSpec(n.Args[0], env, reach)
					if v.C != nil {
						return x.constVal(v.C, o.Type())
					}
					return x.convert(v, v.T, o.Type())
				case *types.Func:
					sp := x.e.prog.Package(o.Pkg())
					fn := sp.Func(o.Name())
					return x.specInline(fn, nil, n.Args, env, reach)
				}
			}
		}
		specFail("unknown function %q in spec", id.Name)
	}
	if se, ok := n.Fun.(*ast.SelectorExpr); ok {
		// pkg.Func(...) or recv.Method(...)
		if id, ok := se.X.(*ast.Ident); ok {
			if id.Name == "slices" && se.Sel.Name == "Contains" && len(n.Args) == 2 {
				if _, shadow := env.names[id.Name]; !shadow {
					sv := x.evalSpec(n.Args[0], env, reach)
					vv := x.evalSpec(n.Args[1], env, reach)
					if r, ok := x.sliceContains(env.st, sv, vv); ok {
						return r
					}
					specFail("slices.Contains: unsupported operand types")
				}
			}
			if _, shadow := env.names[id.Name]; !shadow && id.Name != "ghost" && id.Name != "result" {
				if p := x.e.pkgByNameFrom(env.pkg, id.Name); p != nil {
					obj := p.Scope().Lookup(se.Sel.Name)
					switch o := obj.(type) {
					case *types.Func:
						fn := x.e.prog.Package(p).Func(o.Name())
						return x.specInline(fn, nil, n.Args, env, reach)
					case *types.TypeName:
						v := x.evalSpec(n.Args[0], env, reach)
						if v.C != nil {
							return x.constVal(v.C, o.Type())
						}
						return x.convert(v, v.T, o.Type())
					}
				}
			}
		}
		recv := x.evalSpec(se.X, env, reach)
		if recv.T == nil {
			specFail("method call on untyped value")
		}
		sel := x.e.prog.MethodSets.MethodSet(recv.T).Lookup(x.pkgOfType(recv.T), se.Sel.Name)
		if sel == nil {
			// addressable receiver: try pointer method set
			sel = x.e.prog.MethodSets.MethodSet(types.NewPointer(recv.T)).Lookup(x.pkgOfType(recv.T), se.Sel.Name)
		}
		if sel == nil {
			specFail("no method %s on %v", se.Sel.Name, recv.T)
		}
		if types.IsInterface(recv.T) {
			if se.Sel.Name == "Error" {
				return Val{T: types.Typ[types.String], L: []Term{x.c.App("errtext", SStr, recv.L[0], recv.L[1])}}
			}
			var iargs []Val
			for _, a := range n.Args {
				iargs = append(iargs, x.evalSpec(a, env, reach))
			}
			return x.specIfaceCall(recv, se.Sel.Name, iargs, env, reach)
		}
		// a value-receiver method called through a pointer: the code dereferences and
		// calls the value method, so does the spec (same function, same symbols)
		if pt, isPtr := recv.T.Underlying().(*types.Pointer); isPtr {
			if vs := x.e.prog.MethodSets.MethodSet(pt.Elem()).Lookup(x.pkgOfType(recv.T), se.Sel.Name); vs != nil {
				recv = x.load(env.st, x.toAddr(recv), reach)
				sel = vs
			}
		}
		fn := x.e.prog.MethodValue(sel)
		return x.specInline(fn, &recv, n.Args, env, reach)
	}
	specFail("unsupported call in spec: %s", exprString(n))
	return Val{}
}

func (x *Exec) pkgOfType(t types.Type) *types.Package {
	if p, ok := t.Underlying().(*types.Pointer); ok {
		t = p.Elem()
	}
	if p, ok := t.(*types.Pointer); ok {
		t = p.Elem()
	}
	if n, ok := t.(*types.Named); ok {
		return n.Obj().Pkg()
	}
	return nil
}

// specInline runs a real Go function symbolically inside a spec (its effects
// on the state are discarded).
func (x *Exec) specInline(fn *ssa.Function, recv *Val, argExprs []ast.Expr, env *specEnv, reach Term) Val {
	if fn == nil {
		specFail("spec calls an unknown function")
	}
	want := x.wantResult
	x.wantResult = 0 // applies to this call only, not to calls inside its arguments or body
	x.e.ensureBuilt(fn)
	noBody := len(fn.Blocks) == 0
	pts := sigParamTypes(fn.Signature)
	var args []Val
	k := 0
	if recv != nil {
		args = append(args, *recv)
		k = 1
	}
	for i, a := range argExprs {
		v := x.evalSpec(a, env, reach)
		args = append(args, x.materialize(v, pts[k+i]))
	}
	if noBody {
		r := x.pureCall(fn, args, env.st)
		if want >= len(r) {
			specFail("nth: %s has %d results", fn.String(), len(r))
		}
		return r[want]
	}
	if ct := x.contractFor(fn); ct != nil && ct.Pure {
		r := x.pureCall(fn, args, env.st)
		if want >= len(r) {
			specFail("nth: %s has %d results", fn.String(), len(r))
		}
		return r[want]
	}
	if !x.canInline(fn, 2) {
		specFail("spec calls %s which cannot be inlined", fn.String())
	}
	scratch := env.st.clone()
	res := x.inline(fn, args, nil, scratch, reach, 2)
	if len(res) == 0 {
		return Val{}
	}
	if len(res) == 1 {
		return res[0]
	}
	if want > 0 {
		if want >= len(res) {
			specFail("nth: %s has %d results", fn.String(), len(res))
		}
		return res[want]
	}
	// multi-result: pack as tuple
	out := Val{T: fn.Signature.Results()}
	for _, r := range res {
		out.L = append(out.L, r.L...)
	}
	return out
}
