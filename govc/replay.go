package main

// Replay of counterexamples on the real code. For an `ensures` obligation whose
// counterexample only needs scalar / string / flat-struct inputs, govc writes an
// in-package Go test that calls the real function with the model's inputs and
// prints the observable outputs; the replay is confirmed when the real outputs
// equal the outputs of the model (for which the solver showed the clause false).
// The test is injected with `go test -overlay`, nothing is written to the repo.

import (
	"encoding/json"
	"fmt"
	"go/types"
	"math/big"
	"os"
	"os/exec"
	"path/filepath"
	"sort"
	"strings"
	"time"

	"golang.org/x/tools/go/ssa"
)

type replayResult struct {
	Attempted bool
	Confirmed bool
	Reason    string
	TestFile  string
	Output    string
	Cmd       string
}

type replayGen struct {
	e       *Engine
	fn      *ssa.Function
	pkg     *types.Package
	vals    map[string]string
	strs    map[string]string // literal id → text
	imports map[string]bool
	fail    string
}

func (g *replayGen) unsupported(format string, a ...interface{}) string {
	if g.fail == "" {
		g.fail = fmt.Sprintf(format, a...)
	}
	return "nil"
}

func (g *replayGen) big(name string) (*big.Int, bool) {
	v, ok := g.vals[name]
	if !ok {
		return nil, false
	}
	return smtValueToBig(v)
}

func (g *replayGen) typeStr(t types.Type) string {
	return types.TypeString(t, func(p *types.Package) string {
		if p == g.pkg {
			return ""
		}
		g.imports[p.Path()] = true
		return p.Name()
	})
}

func (g *replayGen) strLit(n *big.Int) string {
	if s, ok := g.strs[n.String()]; ok {
		return fmt.Sprintf("%q", s)
	}
	if n.Sign() == 0 {
		return `""`
	}
	return fmt.Sprintf("%q", "s"+n.String())
}

func signedOf(n *big.Int, w int) *big.Int {
	half := new(big.Int).Lsh(big.NewInt(1), uint(w-1))
	if n.Cmp(half) >= 0 {
		return new(big.Int).Sub(n, new(big.Int).Lsh(big.NewInt(1), uint(w)))
	}
	return n
}

// goValue renders a Go expression of type t from the model values under name.
func (g *replayGen) goValue(name string, t types.Type, depth int) string {
	switch u := t.Underlying().(type) {
	case *types.Basic:
		if u.Info()&types.IsBoolean != 0 {
			v := g.vals[name]
			if v == "true" || v == "false" {
				if _, named := t.(*types.Named); named {
					return fmt.Sprintf("%s(%s)", g.typeStr(t), v)
				}
				return v
			}
			return g.unsupported("no value for %s", name)
		}
		n, ok := g.big(name)
		if !ok {
			return g.unsupported("no value for %s", name)
		}
		switch {
		case u.Info()&types.IsString != 0:
			if _, named := t.(*types.Named); named {
				return fmt.Sprintf("%s(%s)", g.typeStr(t), g.strLit(n))
			}
			return g.strLit(n)
		case u.Info()&types.IsInteger != 0:
			if isSigned(t) {
				n = signedOf(n, basicSort(u).Width())
			}
			return fmt.Sprintf("%s(%s)", g.typeStr(t), n.String())
		}
		return g.unsupported("basic type %s not replayable", t)
	case *types.Pointer:
		n, ok := g.big(name)
		if !ok {
			return g.unsupported("no value for %s", name)
		}
		if n.Sign() == 0 {
			return "nil"
		}
		st, ok := u.Elem().Underlying().(*types.Struct)
		if !ok || depth <= 0 {
			return g.unsupported("non-nil pointer %s of type %s not constructible", name, t)
		}
		return "&" + g.structLit(name+"->", u.Elem(), st)
	case *types.Struct:
		return g.structLit(name+".", t, u)
	case *types.Slice:
		n, ok := g.big(name + ".#id")
		if !ok {
			n, ok = g.big(name + "#id")
		}
		if ok && n.Sign() == 0 {
			return "nil"
		}
		ln, ok2 := g.big(name + ".#len")
		if !ok2 {
			ln, ok2 = g.big(name + "#len")
		}
		if ok2 && ln.Sign() == 0 {
			return fmt.Sprintf("%s{}", g.typeStr(t))
		}
		return g.unsupported("non-empty slice %s not constructible", name)
	case *types.Interface:
		n, ok := g.big(name + ".#tag")
		if !ok {
			n, ok = g.big(name + "#tag")
		}
		if ok && n.Sign() == 0 {
			return "nil"
		}
		return g.unsupported("non-nil interface %s not constructible", name)
	case *types.Map, *types.Chan, *types.Signature:
		n, ok := g.big(name)
		if ok && n.Sign() == 0 {
			return "nil"
		}
		return g.unsupported("%s of type %s not constructible", name, t)
	}
	return g.unsupported("type %s not replayable", t)
}

func (g *replayGen) structLit(prefix string, t types.Type, st *types.Struct) string {
	var fs []string
	for i := 0; i < st.NumFields(); i++ {
		f := st.Field(i)
		if !f.Exported() && f.Pkg() != g.pkg {
			// cannot set unexported fields of foreign structs; require them to be zero-irrelevant
			continue
		}
		name := prefix + f.Name()
		// nested values use '.'/'#' separators produced by shape()
		var val string
		switch ft := f.Type().Underlying().(type) {
		case *types.Struct:
			val = g.structLit(name+".", f.Type(), ft)
		case *types.Pointer:
			n, ok := g.big(name)
			if !ok || n.Sign() != 0 {
				val = g.unsupported("pointer field %s must be nil to be constructible", name)
			} else {
				continue
			}
		case *types.Slice:
			id, ok := g.big(name + "#id")
			ln, ok2 := g.big(name + "#len")
			if (ok && id.Sign() == 0) || (ok2 && ln.Sign() == 0) {
				continue
			}
			val = g.unsupported("slice field %s not constructible", name)
		case *types.Interface:
			tag, ok := g.big(name + "#tag")
			if ok && tag.Sign() == 0 {
				continue
			}
			val = g.unsupported("interface field %s not constructible", name)
		case *types.Map, *types.Chan, *types.Signature:
			n, ok := g.big(name)
			if ok && n.Sign() == 0 {
				continue
			}
			val = g.unsupported("field %s not constructible", name)
		case *types.Array:
			continue
		default:
			val = g.goValue(name, f.Type(), 0)
		}
		fs = append(fs, fmt.Sprintf("%s: %s", f.Name(), val))
	}
	return fmt.Sprintf("%s{%s}", g.typeStr(t), strings.Join(fs, ", "))
}

// printers for observable outputs: returns Go statements printing "name=value".
func (g *replayGen) printer(name, expr string, t types.Type, depth int) []string {
	var out []string
	p := func(n, format, e string) {
		out = append(out, fmt.Sprintf("fmt.Printf(\"VERIF-OUT %s=%s\\n\", %s)", n, format, e))
	}
	switch u := t.Underlying().(type) {
	case *types.Basic:
		switch {
		case u.Info()&types.IsBoolean != 0:
			p(name, "%v", "bool("+expr+")")
		case u.Info()&types.IsInteger != 0:
			p(name, "%d", expr)
		case u.Info()&types.IsString != 0:
			p(name, "%q", "string("+expr+")")
		}
	case *types.Interface:
		p(name+".#nil", "%v", expr+" == nil")
	case *types.Pointer:
		p(name+".#nil", "%v", expr+" == nil")
		if st, ok := u.Elem().Underlying().(*types.Struct); ok && depth > 0 {
			var inner []string
			for i := 0; i < st.NumFields(); i++ {
				f := st.Field(i)
				if !f.Exported() && f.Pkg() != g.pkg {
					continue
				}
				if _, ok := f.Type().Underlying().(*types.Basic); ok {
					inner = append(inner, g.printer(name+"->"+f.Name(), expr+"."+f.Name(), f.Type(), 0)...)
				}
			}
			if len(inner) > 0 {
				out = append(out, "if "+expr+" != nil {")
				out = append(out, inner...)
				out = append(out, "}")
			}
		}
	case *types.Struct:
		for i := 0; i < u.NumFields(); i++ {
			f := u.Field(i)
			if !f.Exported() && f.Pkg() != g.pkg {
				continue
			}
			out = append(out, g.printer(name+"."+f.Name(), expr+"."+f.Name(), f.Type(), 0)...)
		}
	case *types.Slice:
		p(name+".#len", "%d", "len("+expr+")")
	}
	return out
}

// tryReplay builds and runs the replay test for a failed ensures obligation.
func (r *Run) tryReplay(o *Oblig) replayResult {
	res := replayResult{}
	if o.Kind != "ensures" || len(o.CexVals) == 0 || o.TopFn == nil {
		res.Reason = "only ensures obligations with a model are replayed by input construction"
		return res
	}
	fn := o.TopFn
	if fn.Pkg == nil {
		res.Reason = "synthetic function"
		return res
	}
	g := &replayGen{e: r.eng, fn: fn, pkg: fn.Pkg.Pkg, vals: o.CexVals, strs: o.StrIDs, imports: map[string]bool{"fmt": true, "testing": true}}
	var args []string
	for _, p := range fn.Params {
		args = append(args, g.goValue("in."+p.Name(), p.Type(), 1))
	}
	if g.fail != "" {
		res.Reason = "inputs not constructible: " + g.fail
		return res
	}
	res.Attempted = true
	var body []string
	var argNames []string
	for i, p := range fn.Params {
		body = append(body, fmt.Sprintf("a%d := %s", i, args[i]))
		argNames = append(argNames, fmt.Sprintf("a%d", i))
		_ = p
	}
	sig := fn.Signature
	var call string
	if sig.Recv() != nil {
		call = fmt.Sprintf("a0.%s(%s)", fn.Name(), strings.Join(argNames[1:], ", "))
	} else {
		call = fmt.Sprintf("%s(%s)", fn.Name(), strings.Join(argNames, ", "))
	}
	var rnames []string
	for k := 0; k < sig.Results().Len(); k++ {
		rnames = append(rnames, fmt.Sprintf("r%d", k))
	}
	if len(rnames) > 0 {
		body = append(body, strings.Join(rnames, ", ")+" := "+call)
	} else {
		body = append(body, call)
	}
	for k := 0; k < sig.Results().Len(); k++ {
		body = append(body, g.printer(fmt.Sprintf("out.result%d", k), rnames[k], sig.Results().At(k).Type(), 1)...)
	}
	for i, p := range fn.Params {
		if _, isPtr := p.Type().Underlying().(*types.Pointer); isPtr {
			body = append(body, g.printer("out."+p.Name(), argNames[i], p.Type(), 1)...)
		}
	}
	body = append(body, "fmt.Println(\"VERIF-OUT done=true\")")
	var imps []string
	for p := range g.imports {
		imps = append(imps, fmt.Sprintf("%q", p))
	}
	sort.Strings(imps)
	src := fmt.Sprintf("package %s\n\n// generated by govc: replay of a counterexample for %s\n\nimport (\n\t%s\n)\n\nfunc TestVerifReplay(t *testing.T) {\n\tdefer func() {\n\t\tif p := recover(); p != nil {\n\t\t\tfmt.Printf(\"VERIF-OUT panic=%%q\\n\", fmt.Sprint(p))\n\t\t}\n\t}()\n\t%s\n}\n",
		fn.Pkg.Pkg.Name(), o.Name, strings.Join(imps, "\n\t"), strings.Join(body, "\n\t"))

	// place the file through an overlay
	tmp, err := os.MkdirTemp("", "govc-replay-")
	if err != nil {
		res.Reason = err.Error()
		return res
	}
	defer os.RemoveAll(tmp)
	pkgDir := ""
	if pp, ok := r.eng.byPath[fn.Pkg.Pkg.Path()]; ok && len(pp.GoFiles) > 0 {
		pkgDir = filepath.Dir(pp.GoFiles[0])
	}
	if pkgDir == "" {
		res.Reason = "package directory unknown"
		return res
	}
	testSrc := filepath.Join(tmp, "zz_verif_replay_test.go")
	os.WriteFile(testSrc, []byte(src), 0o644)
	ov := map[string]map[string]string{"Replace": {filepath.Join(pkgDir, "zz_verif_replay_test.go"): testSrc}}
	ovb, _ := json.Marshal(ov)
	ovFile := filepath.Join(tmp, "overlay.json")
	os.WriteFile(ovFile, ovb, 0o644)
	rel, _ := filepath.Rel(r.Repo, pkgDir)
	cmd := exec.Command("go", "test", "-overlay", ovFile, "-vet=off", "-count=1", "-timeout", "60s", "-run", "^TestVerifReplay$", "-v", "./"+rel)
	cmd.Dir = r.Repo
	cmd.Env = append(os.Environ(), "GOFLAGS=-mod=mod", "GOPROXY=off", "GOSUMDB=off", "GOTOOLCHAIN=local")
	done := make(chan struct{})
	var outb []byte
	go func() {
		outb, _ = cmd.CombinedOutput()
		close(done)
	}()
	select {
	case <-done:
	case <-time.After(180 * time.Second):
		if cmd.Process != nil {
			cmd.Process.Kill()
		}
		<-done
	}
	res.Output = string(outb)
	res.TestFile = src
	res.Cmd = fmt.Sprintf("(cd %s && go test -overlay <overlay.json mapping %s> -vet=off -count=1 -timeout 60s -run '^TestVerifReplay$' -v ./%s)", r.Repo, filepath.Join(rel, "zz_verif_replay_test.go"), rel)
	// compare observable outputs with the model
	got := map[string]string{}
	for _, line := range strings.Split(res.Output, "\n") {
		line = strings.TrimSpace(line)
		if strings.HasPrefix(line, "VERIF-OUT ") {
			kv := strings.SplitN(strings.TrimPrefix(line, "VERIF-OUT "), "=", 2)
			if len(kv) == 2 {
				got[kv[0]] = kv[1]
			}
		}
	}
	if got["done"] != "true" {
		if p, ok := got["panic"]; ok {
			res.Reason = "real code panicked: " + p
		} else {
			res.Reason = "replay test did not complete"
		}
		return res
	}
	mismatch := ""
	compared := 0
	for k, v := range got {
		if k == "done" {
			continue
		}
		want, ok := g.modelString(k)
		if !ok {
			continue
		}
		compared++
		if want != v {
			mismatch += fmt.Sprintf("%s: real=%s model=%s; ", k, v, want)
		}
	}
	if compared == 0 {
		res.Reason = "no observable output to compare"
		return res
	}
	if mismatch != "" {
		res.Reason = "real outputs differ from the model: " + mismatch
		return res
	}
	res.Confirmed = true
	res.Reason = fmt.Sprintf("real code reproduced all %d observable outputs of the counterexample", compared)
	return res
}

// modelString renders the model's value for an observable in the format the
// replay test prints.
func (g *replayGen) modelString(k string) (string, bool) {
	if strings.HasSuffix(k, ".#nil") {
		base := strings.TrimSuffix(k, ".#nil")
		if n, ok := g.big(base); ok {
			return fmt.Sprint(n.Sign() == 0), true
		}
		if n, ok := g.big(base + ".#tag"); ok {
			return fmt.Sprint(n.Sign() == 0), true
		}
		return "", false
	}
	if strings.HasSuffix(k, ".#len") {
		if n, ok := g.big(k); ok {
			return n.String(), true
		}
		return "", false
	}
	v, ok := g.vals[k]
	if !ok {
		return "", false
	}
	if v == "true" || v == "false" {
		return v, true
	}
	n, ok := smtValueToBig(v)
	if !ok {
		return "", false
	}
	// integer or string? decide from the result/param type
	t := g.typeOfObservable(k)
	if t == nil {
		return "", false
	}
	if isString(t) {
		s := g.strLit(n)
		return s, true
	}
	if isInteger(t) {
		if isSigned(t) {
			n = signedOf(n, basicSort(t.Underlying().(*types.Basic)).Width())
		}
		return n.String(), true
	}
	return "", false
}

func (g *replayGen) typeOfObservable(k string) types.Type {
	// out.resultN[.Field | ->Field] or out.param->Field
	rest := strings.TrimPrefix(k, "out.")
	var base types.Type
	var path string
	if strings.HasPrefix(rest, "result") {
		i := 6
		for i < len(rest) && rest[i] >= '0' && rest[i] <= '9' {
			i++
		}
		var n int
		fmt.Sscanf(rest[6:i], "%d", &n)
		if n >= g.fn.Signature.Results().Len() {
			return nil
		}
		base = g.fn.Signature.Results().At(n).Type()
		path = rest[i:]
	} else {
		for _, p := range g.fn.Params {
			if strings.HasPrefix(rest, p.Name()) {
				base = p.Type()
				path = rest[len(p.Name()):]
			}
		}
	}
	if base == nil {
		return nil
	}
	for path != "" {
		var name string
		if strings.HasPrefix(path, "->") {
			path = path[2:]
			if pt, ok := base.Underlying().(*types.Pointer); ok {
				base = pt.Elem()
			}
		} else if strings.HasPrefix(path, ".") {
			path = path[1:]
		}
		j := strings.IndexAny(path, ".-")
		if j < 0 {
			name, path = path, ""
		} else {
			name, path = path[:j], path[j:]
		}
		st, ok := base.Underlying().(*types.Struct)
		if !ok {
			return nil
		}
		found := false
		for i := 0; i < st.NumFields(); i++ {
			if st.Field(i).Name() == name {
				base = st.Field(i).Type()
				found = true
			}
		}
		if !found {
			return nil
		}
	}
	return base
}
