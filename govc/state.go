package main

import (
	"go/types"
	"sort"
	"strings"
)

// State is the symbolic machine state at one program point.
type State struct {
	heap  map[string]Term // heap key → array term (absent: initial array H0_key)
	ghost map[string]Val
	ctr   Term // allocation frontier: every ref reachable in the heap is < ctr
	sctr  Term // frontier of slice backing-store ids handed out by make / growing append
	held  Term // lock-set (Array Ref Bool) — C18
	res   *resolver // how keys absent from heap are resolved (initial array, or a havoc layer)
}

// resolver describes the value of heap keys that have not been touched yet on
// this path: the initial heap, a havoc layer (loop cut / unknown call) on top
// of another resolver, or a join of several.
type resolver struct {
	kind  int // 0 base, 1 layer, 2 merge
	tag   string
	eff   *Effects
	below *resolver
	conds []Term
	subs  []*resolver
	sctr  Term // layer: the slice-store frontier right after the havoc (every id in the havocked heap is older)
	ctr   Term // layer: the allocation frontier right after the havoc (every reference in the havocked heap is older)
}

var baseResolver = &resolver{kind: 0}

func (x *Exec) resolve(r *resolver, key string, srt Sort) Term {
	switch r.kind {
	case 0:
		t := x.c.Named("H0_"+key, srt)
		x.c.noteOrigin(t.S, key)
		x.noteIdBound(t.S, x.c.Named("sctr0", SBV(64)))
		x.noteRefBound(t.S, x.c.Named("ctr0", SRef))
		return t
	case 1:
		if r.eff.matches(key) {
			t := x.c.Named("Hh_"+r.tag+"_"+key, srt)
			x.c.noteOrigin(t.S, key)
			if r.sctr.S != "" {
				x.noteIdBound(t.S, r.sctr)
			}
			if r.ctr.S != "" {
				x.noteRefBound(t.S, r.ctr)
			}
			return t
		}
		return x.resolve(r.below, key, srt)
	}
	acc := x.resolve(r.subs[0], key, srt)
	for i := 1; i < len(r.subs); i++ {
		acc = Ite(r.conds[i], x.resolve(r.subs[i], key, srt), acc)
	}
	return acc
}

func (s *State) clone() *State {
	n := &State{heap: make(map[string]Term, len(s.heap)), ghost: make(map[string]Val, len(s.ghost)), ctr: s.ctr, sctr: s.sctr, held: s.held, res: s.res}
	for k, v := range s.heap {
		n.heap[k] = v
	}
	for k, v := range s.ghost {
		n.ghost[k] = v
	}
	return n
}

// heap key registry (sorts), shared by the whole run.
type heapReg struct {
	sorts map[string]Sort
}

func objKey(obj types.Type, leafPath string) string {
	return typeKey(obj) + "|" + leafPath
}

func sliceKey(elem types.Type, leafPath string) string {
	return "slice:" + typeKey(elem) + "|" + leafPath
}

func mapKey(m types.Type, leafPath string) string {
	return "map:" + typeKey(m) + "|" + leafPath
}

func (x *Exec) heapGet(st *State, key string, srt Sort) Term {
	if t, ok := st.heap[key]; ok {
		return t
	}
	x.reg.sorts[key] = srt
	t := x.resolve(st.res, key, srt)
	t = x.c.Define("H_"+key, t)
	st.heap[key] = t
	return t
}

func (x *Exec) heapSet(st *State, key string, t Term) {
	x.reg.sorts[key] = t.Sort
	st.heap[key] = x.c.Define("H_"+key, t)
}

// mergeStates builds the state at a join point: conds[i] is the condition
// under which control arrives from states[i].
func (x *Exec) mergeStates(conds []Term, states []*State) *State {
	if len(states) == 1 {
		return states[0].clone()
	}
	out := states[0].clone()
	same := true
	for _, s := range states {
		if s.res != states[0].res {
			same = false
		}
	}
	if !same {
		r := &resolver{kind: 2, conds: conds}
		for _, s := range states {
			r.subs = append(r.subs, s.res)
		}
		out.res = r
	}
	keys := map[string]bool{}
	for _, s := range states {
		for k := range s.heap {
			keys[k] = true
		}
	}
	var ks []string
	for k := range keys {
		ks = append(ks, k)
	}
	sort.Strings(ks)
	for _, k := range ks {
		srt := x.reg.sorts[k]
		acc := x.heapGet(states[0], k, srt)
		for i := 1; i < len(states); i++ {
			v := x.heapGet(states[i], k, srt)
			acc = Ite(conds[i], v, acc)
		}
		out.heap[k] = x.c.Define("H_"+k, acc)
	}
	gk := map[string]bool{}
	for _, s := range states {
		for k := range s.ghost {
			gk[k] = true
		}
	}
	for k := range gk {
		acc := states[0].ghost[k]
		for i := 1; i < len(states); i++ {
			acc = iteVal(conds[i], states[i].ghost[k], acc)
		}
		for j := range acc.L {
			acc.L[j] = x.c.Define("G_"+k, acc.L[j])
		}
		out.ghost[k] = acc
	}
	acc := states[0].ctr
	for i := 1; i < len(states); i++ {
		acc = Ite(conds[i], states[i].ctr, acc)
	}
	out.ctr = x.c.Define("ctr", acc)
	sacc := states[0].sctr
	for i := 1; i < len(states); i++ {
		sacc = Ite(conds[i], states[i].sctr, sacc)
	}
	out.sctr = x.c.Define("sctr", sacc)
	acc = states[0].held
	for i := 1; i < len(states); i++ {
		acc = Ite(conds[i], states[i].held, acc)
	}
	out.held = x.c.Define("held", acc)
	return out
}

// ---- effects (may-modify sets) ----

type Effects struct {
	All    bool
	Keys   map[string]bool // heap key prefixes "type|pathprefix" (prefix match on leaf path)
	Ghosts map[string]bool
	// keys that are never affected (frame by encapsulation): exact keys and key prefixes
	ExceptExact  []string
	ExceptPrefix []string
}

func newEffects() *Effects {
	return &Effects{Keys: map[string]bool{}, Ghosts: map[string]bool{}}
}

func (e *Effects) add(o *Effects) {
	if o.All {
		e.All = true
	}
	for k := range o.Keys {
		e.Keys[k] = true
	}
	for k := range o.Ghosts {
		e.Ghosts[k] = true
	}
}

func (e *Effects) matches(key string) bool {
	for _, k := range e.ExceptExact {
		if key == k {
			return false
		}
	}
	for _, p := range e.ExceptPrefix {
		if strings.HasPrefix(key, p) {
			return false
		}
	}
	if e.All {
		return true
	}
	for p := range e.Keys {
		if strings.HasPrefix(key, p) {
			// prefix must end at a path boundary
			rest := key[len(p):]
			if rest == "" || strings.HasSuffix(p, "|") || rest[0] == '.' || rest[0] == '#' {
				return true
			}
		}
	}
	return false
}

// reachKeys adds every heap key type-reachable from a value of type t.
func reachKeys(t types.Type, out *Effects, seen map[types.Type]bool) {
	if t == nil || seen[t] {
		return
	}
	seen[t] = true
	switch u := t.Underlying().(type) {
	case *types.Pointer:
		out.Keys[typeKey(u.Elem())+"|"] = true
		reachInside(u.Elem(), out, seen)
	case *types.Slice:
		out.Keys["slice:"+typeKey(u.Elem())+"|"] = true
		reachInside(u.Elem(), out, seen)
	case *types.Map:
		out.Keys["map:"+typeKey(t)+"|"] = true
		reachInside(u.Elem(), out, seen)
	case *types.Struct:
		reachInside(t, out, seen)
	case *types.Array:
		reachInside(u.Elem(), out, seen)
	}
}

func reachInside(t types.Type, out *Effects, seen map[types.Type]bool) {
	switch u := t.Underlying().(type) {
	case *types.Struct:
		for i := 0; i < u.NumFields(); i++ {
			reachKeys(u.Field(i).Type(), out, seen)
		}
	default:
		reachKeys(t, out, seen)
	}
}

// noteIdBound: every slice id stored in the (initial or havocked) heap array sym
// denotes a backing store that existed when the array came into being.
func (x *Exec) noteIdBound(sym string, bound Term) {
	if x.idBound == nil {
		x.idBound = map[string]Term{}
	}
	if _, ok := x.idBound[sym]; !ok {
		x.idBound[sym] = bound
	}
}

func (x *Exec) noteRefBound(sym string, bound Term) {
	if x.refBound == nil {
		x.refBound = map[string]Term{}
	}
	if _, ok := x.refBound[sym]; !ok {
		x.refBound[sym] = bound
	}
}
