package main

import (
	"flag"
	"fmt"
	"os"
	"path/filepath"
	"sort"
	"strings"
	"time"
)

func usage() {
	fmt.Fprintln(os.Stderr, "usage: govc check -prop Cxx [-tier quick|thorough] [-repo /repo] [-verif /verif] [-pin]")
	fmt.Fprintln(os.Stderr, "       govc dump  -prop Cxx -obl <name> [-repo /repo]")
	os.Exit(2)
}

func main() {
	if len(os.Args) < 2 {
		usage()
	}
	switch os.Args[1] {
	case "check", "dump":
		cmdCheck(os.Args[1], os.Args[2:])
	default:
		usage()
	}
}

// contractPackages finds the package directories whose contract files mention prop.
func contractPackages(repo, prop string) ([]string, error) {
	var dirs []string
	err := filepath.Walk(repo, func(p string, info os.FileInfo, err error) error {
		if err != nil {
			return nil
		}
		if info.IsDir() {
			n := info.Name()
			if n == ".git" || n == "node_modules" || n == "docs" {
				return filepath.SkipDir
			}
			return nil
		}
		if strings.HasPrefix(info.Name(), "zz_verif_contracts") && strings.HasSuffix(info.Name(), ".go") {
			b, err := os.ReadFile(p)
			if err != nil {
				return nil
			}
			if prop == "" || strings.Contains(string(b), prop) {
				d := filepath.Dir(p)
				rel, _ := filepath.Rel(repo, d)
				dirs = append(dirs, "./"+rel)
			}
		}
		return nil
	})
	sort.Strings(dirs)
	// dedupe
	var out []string
	for i, d := range dirs {
		if i == 0 || d != dirs[i-1] {
			out = append(out, d)
		}
	}
	return out, err
}

func hasProp(ps []string, p string) bool {
	for _, q := range ps {
		if q == p {
			return true
		}
	}
	return false
}

func contractMentions(ct *Contract, prop string) bool {
	if hasProp(ct.Props, prop) {
		return true
	}
	for _, cl := range ct.Req {
		if hasProp(cl.Props, prop) {
			return true
		}
	}
	for _, cl := range ct.Ens {
		if hasProp(cl.Props, prop) {
			return true
		}
	}
	for _, cls := range ct.Loops {
		for _, cl := range cls {
			if hasProp(cl.Props, prop) {
				return true
			}
		}
	}
	return false
}

func cmdCheck(mode string, args []string) {
	fs := flag.NewFlagSet("check", flag.ExitOnError)
	prop := fs.String("prop", "", "property id")
	tier := fs.String("tier", envOr("VERIF_TIER", "quick"), "quick|thorough")
	repo := fs.String("repo", envOr("VERIF_REPO", "/repo"), "repository root")
	verif := fs.String("verif", envOr("VERIF_HOME", "/verif"), "verif root")
	pin := fs.Bool("pin", false, "rewrite expect/<prop>.obligations from this run")
	oblName := fs.String("obl", "", "dump: obligation name")
	noReplay := fs.Bool("noreplay", false, "do not attempt replays")
	verbose := fs.Bool("v", false, "print every obligation")
	outDir := fs.String("out", "", "directory for evidence/ and replays/ (default: the verif root)")
	fs.Parse(args)
	if *prop == "" {
		usage()
	}
	start := time.Now()
	run := &Run{Prop: *prop, Tier: *tier, Repo: *repo, Verif: *verif, Pin: *pin, Start: start, NoReplay: *noReplay, Verbose: *verbose, Out: *outDir}
	if run.Out == "" {
		run.Out = *verif
	}
	initSlots(*verif)
	wantSiteCovers = os.Getenv("GOVC_NO_SITE_COVERS") == ""
	dirs, err := contractPackages(*repo, *prop)
	if err != nil || len(dirs) == 0 {
		run.fatal("no contract files mention %s under %s (hooks missing?)", *prop, *repo)
	}
	eng, err := loadEngine(*repo, dirs)
	if err != nil {
		run.fatal("loading %v: %v", dirs, err)
	}
	run.LoadSecs = time.Since(start).Seconds()
	run.eng = eng
	var keys []string
	for k, ct := range eng.cs.Funcs {
		if ct.IsIface || ct.Inline || ct.Pure || ct.Havoc {
			continue
		}
		if contractMentions(ct, *prop) {
			keys = append(keys, k)
		}
	}
	sort.Strings(keys)
	for _, k := range keys {
		ct := eng.cs.Funcs[k]
		if ct.Trusted {
			run.Trusted = append(run.Trusted, fmt.Sprintf("trusted contract (body not verified): %s", k))
			continue
		}
		x, err := eng.verifyContract(ct)
		if err != nil {
			run.Stale = append(run.Stale, err.Error())
			continue
		}
		run.addExec(x, *prop)
	}
	run.addLemmas(*prop)
	run.addEncapsulation(*prop)
	run.addTables(*prop)
	run.addStateUnits(*prop)
	if mode == "dump" {
		for _, o := range append(append(append([]*Oblig{}, run.Obls...), run.Covers...), run.SiteCovers...) {
			if *oblName == "" {
				fmt.Println(o.Name)
				continue
			}
			if o.Name == *oblName {
				for _, p := range o.Parts {
					fmt.Printf("; part at %s\n%s\n", p.Where, o.Ctx.Script(p.NAssume, p.NegGoal, true))
				}
			}
		}
		return
	}
	run.finish()
}

func envOr(k, d string) string {
	if v := os.Getenv(k); v != "" {
		return v
	}
	return d
}
