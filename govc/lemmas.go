package main

// Lemmas: formulas over declared variables that must be valid. Used for the
// arithmetic consequences that combine several functions' contracts.
//
//   //@ lemma <name>
//   //@ property Cxx
//   //@ var tip uint32
//   //@ assume <expr>
//   //@ show [label:] <expr>

import (
	"fmt"

	"golang.org/x/tools/go/ssa"
)

func (r *Run) addLemmas(prop string) {
	cs := r.eng.cs
	for _, lm := range cs.Lemmas {
		if !hasProp(lm.Props, prop) {
			continue
		}
		pkgPath := lemmaPkg[lm]
		x := &Exec{e: r.eng, c: NewCtx(), reg: &heapReg{sorts: map[string]Sort{}}, obls: map[string]*Oblig{},
			inlined: map[string]bool{}, havocked: map[string]bool{}, usedContracts: map[string]bool{},
			knownNonNil: map[string]bool{}, globalsSeen: map[string]bool{}, nameOverride: "lemma." + lm.Name}
		x.top = r.anyFunction(pkgPath)
		x.ct = &Contract{PkgPath: pkgPath, Name: "lemma." + lm.Name, Props: lm.Props, Loops: map[int][]*Clause{}}
		func() {
			defer func() {
				if rr := recover(); rr != nil {
					if se, ok := rr.(specError); ok {
						r.Stale = append(r.Stale, fmt.Sprintf("lemma %s: %s", lm.Name, se.msg))
						return
					}
					panic(rr)
				}
			}()
			st := x.newState()
			names := map[string]Val{}
			var cex []CexTerm
			for _, v := range lm.Vars {
				val := freshVal(x.c, "lv_"+v.Name, ghostType(v.Type))
				names[v.Name] = val
				cex = append(cex, CexTerm{v.Name, val.L[0]})
			}
			env := &specEnv{x: x, names: names, st: st, old: st, pkg: r.eng.typesPkg(pkgPath)}
			x.specDepth++
			for _, a := range lemmaAssumes[lm] {
				x.c.Assume(x.evalBool(a.Expr, env, TTrue))
			}
			for k, s := range lemmaShows[lm] {
				g := x.evalBool(s.Expr, env, TTrue)
				name := fmt.Sprintf("lemma.%s[%s]", lm.Name, clauseLabel(s, k))
				x.addObl(name, "lemma", s.Text, lm.Props, OblPart{NegGoal: Not(g), NAssume: len(x.c.Assumes), Where: "lemma", Cex: cex}, false)
			}
			x.specDepth--
			x.coverReach = TTrue
			r.addExec(x, prop)
		}()
	}
}

func (r *Run) anyFunction(pkgPath string) *ssa.Function {
	for k, f := range r.eng.funcs {
		if len(k) > len(pkgPath) && k[:len(pkgPath)] == pkgPath && f.Pkg != nil && len(f.Blocks) > 0 {
			return f
		}
	}
	for _, f := range r.eng.funcs {
		if f.Pkg != nil {
			return f
		}
	}
	return nil
}
