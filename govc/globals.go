package main

// Package-level error variables: `var ErrX = errors.New(..)` / fmt.Errorf(..)
// are assigned a non-nil error by the package initialiser. The initial heap
// is constrained accordingly (only for globals that the initialiser assigns
// exactly once from such a call, and that no other function of the module
// assigns).

import (
	"go/types"

	"golang.org/x/tools/go/ssa"
)

func (e *Engine) nonNilErrorGlobals() map[*ssa.Global]bool {
	if e.nonNilGlobals != nil {
		return e.nonNilGlobals
	}
	out := map[*ssa.Global]bool{}
	written := map[*ssa.Global]int{}
	for _, fn := range e.funcs {
		for _, b := range fn.Blocks {
			for _, ins := range b.Instrs {
				st, ok := ins.(*ssa.Store)
				if !ok {
					continue
				}
				g, ok := st.Addr.(*ssa.Global)
				if !ok {
					continue
				}
				written[g]++
				if fn.Synthetic != "package initializer" {
					written[g] += 100
					continue
				}
				call, ok := st.Val.(*ssa.Call)
				if !ok {
					continue
				}
				callee := call.Call.StaticCallee()
				if callee == nil {
					continue
				}
				switch callee.String() {
				case "errors.New", "fmt.Errorf":
					if types.IsInterface(call.Type()) {
						out[g] = true
					}
				}
			}
		}
	}
	for g := range out {
		if written[g] != 1 {
			delete(out, g)
		}
	}
	e.nonNilGlobals = out
	return out
}
