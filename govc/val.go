package main

// Value shapes: every Go type is flattened into a list of scalar SMT leaves.

import (
	"fmt"
	"go/constant"
	"go/types"
	"strings"
)

type Leaf struct {
	Path string     // "" for scalars, "Field.Sub" for nested struct fields, "#len" etc for slices
	Sort Sort
	Typ  types.Type // Go type of the leaf (for signedness), may be nil for synthetic leaves
}

// isRef: the leaf holds an object reference (pointer or map), as opposed to a
// 32-bit machine integer, which has the same SMT sort.
func (l Leaf) isRef() bool {
	return l.Sort == SRef && l.Typ != nil && isRefType(l.Typ)
}

func isRefType(t types.Type) bool {
	if t == nil {
		return false
	}
	switch t.Underlying().(type) {
	case *types.Pointer, *types.Map:
		return true
	}
	return false
}

// Val is a symbolic Go value.
type Val struct {
	T types.Type
	L []Term
	A *Addr          // non-nil: pointer value known as generator-level lvalue
	C constant.Value // non-nil: untyped/typed constant not yet materialised
	MI bool          // spec-level mathint (single leaf of width MIW)
}

const (
	addrObj    = iota // (Base ref, Obj type, Path) — Path=="" means the whole object
	addrElem          // element (or a field path inside an element) of a slice / top-level array backing store
	addrArrIdx        // element of an array-typed leaf inside an object
)

type Addr struct {
	Kind int
	Base Term       // ref of containing heap object
	Obj  types.Type // type of the containing heap object
	Path string     // leaf-path prefix within the object ("" or "F." or "F.G.")
	FT   types.Type // type found at Path
	// addrElem
	SliceID Term
	ElemT   types.Type
	Index   Term
}

var shapeCache = map[types.Type][]Leaf{}

func isNamedStructPtr(t types.Type) (*types.Struct, bool) {
	p, ok := t.Underlying().(*types.Pointer)
	if !ok {
		return nil, false
	}
	s, ok := p.Elem().Underlying().(*types.Struct)
	return s, ok
}

func basicSort(b *types.Basic) Sort {
	switch b.Kind() {
	case types.Bool, types.UntypedBool:
		return SBool
	case types.Int8, types.Uint8:
		return SBV(8)
	case types.Int16, types.Uint16:
		return SBV(16)
	case types.Int32, types.Uint32, types.UntypedRune:
		return SBV(32)
	case types.Int, types.Uint, types.Int64, types.Uint64, types.Uintptr, types.UntypedInt, types.UnsafePointer:
		return SBV(64)
	case types.Float64, types.UntypedFloat:
		return SF64
	case types.Float32:
		return SF32
	case types.String, types.UntypedString:
		return SStr
	case types.UntypedNil:
		return SRef
	case types.Invalid:
		return SBV(64)
	case types.Complex64, types.Complex128:
		return SBV(64) // opaque
	}
	panic("basicSort: " + b.String())
}

func isSigned(t types.Type) bool {
	if t == nil {
		return false
	}
	if b, ok := t.Underlying().(*types.Basic); ok {
		return b.Info()&types.IsUnsigned == 0 && b.Info()&types.IsInteger != 0
	}
	return false
}

func isInteger(t types.Type) bool {
	if t == nil {
		return false
	}
	b, ok := t.Underlying().(*types.Basic)
	return ok && b.Info()&types.IsInteger != 0
}

func isFloat(t types.Type) bool {
	if t == nil {
		return false
	}
	b, ok := t.Underlying().(*types.Basic)
	return ok && b.Info()&types.IsFloat != 0
}

func isString(t types.Type) bool {
	if t == nil {
		return false
	}
	b, ok := t.Underlying().(*types.Basic)
	return ok && b.Info()&types.IsString != 0
}

func isBool(t types.Type) bool {
	if t == nil {
		return false
	}
	b, ok := t.Underlying().(*types.Basic)
	return ok && b.Info()&types.IsBoolean != 0
}

// shape flattens a type into leaves.
func shape(t types.Type) []Leaf {
	if t == nil {
		return nil
	}
	if s, ok := shapeCache[t]; ok {
		return s
	}
	var out []Leaf
	switch u := t.Underlying().(type) {
	case *types.Basic:
		out = []Leaf{{"", basicSort(u), t}}
	case *types.Pointer:
		out = []Leaf{{"", SRef, t}}
	case *types.Struct:
		for i := 0; i < u.NumFields(); i++ {
			f := u.Field(i)
			for _, l := range shape(f.Type()) {
				p := f.Name()
				if l.Path != "" {
					if strings.HasPrefix(l.Path, "#") {
						p += l.Path
					} else {
						p += "." + l.Path
					}
				}
				out = append(out, Leaf{p, l.Sort, l.Typ})
			}
		}
		if len(out) == 0 {
			// empty struct: no leaves
		}
	case *types.Slice:
		out = []Leaf{{"#id", SBV(64), nil}, {"#len", SBV(64), types.Typ[types.Int]}, {"#cap", SBV(64), types.Typ[types.Int]}}
	case *types.Array:
		es := shape(u.Elem())
		if len(es) == 1 {
			out = []Leaf{{"", SArr(SBV(64), es[0].Sort), t}}
		} else {
			out = []Leaf{{"#opaque", SBV(64), nil}}
		}
	case *types.Map:
		out = []Leaf{{"", SRef, t}}
	case *types.Chan:
		out = []Leaf{{"", SBV(64), nil}}
	case *types.Signature:
		out = []Leaf{{"", SBV(64), nil}}
	case *types.Interface:
		out = []Leaf{{"#tag", SBV(32), nil}, {"#data", SBV(64), nil}}
	case *types.Tuple:
		for i := 0; i < u.Len(); i++ {
			for _, l := range shape(u.At(i).Type()) {
				out = append(out, Leaf{fmt.Sprintf("%d/%s", i, l.Path), l.Sort, l.Typ})
			}
		}
	case *types.TypeParam:
		out = []Leaf{{"#opaque", SBV(64), nil}}
	default:
		panic(fmt.Sprintf("shape: unsupported type %T %s", u, t))
	}
	shapeCache[t] = out
	return out
}

// structFieldRange returns the leaf index range of field i of struct st.
func structFieldRange(st *types.Struct, i int) (int, int) {
	lo := 0
	for j := 0; j < i; j++ {
		lo += len(shape(st.Field(j).Type()))
	}
	return lo, lo + len(shape(st.Field(i).Type()))
}

func tupleFieldRange(tp *types.Tuple, i int) (int, int) {
	lo := 0
	for j := 0; j < i; j++ {
		lo += len(shape(tp.At(j).Type()))
	}
	return lo, lo + len(shape(tp.At(i).Type()))
}

func typeKey(t types.Type) string {
	return types.TypeString(t, nil)
}

// zeroLeaf returns the zero value of a leaf sort.
func zeroLeaf(c *Ctx, l Leaf) Term {
	switch {
	case l.Sort == SBool:
		return TFalse
	case l.Sort.IsBV():
		return BVLit(0, l.Sort.Width())
	case l.Sort.IsFP():
		if l.Sort == SF64 {
			return Term{"(_ +zero 11 53)", SF64}
		}
		return Term{"(_ +zero 8 24)", SF32}
	case l.Sort.IsArr():
		k, v := arrSorts(l.Sort)
		return Term{fmt.Sprintf("((as const %s) %s)", l.Sort, zeroLeaf(c, Leaf{"", v, nil}).S), SArr(k, v)}
	}
	panic("zeroLeaf " + string(l.Sort))
}

func zeroVal(c *Ctx, t types.Type) Val {
	sh := shape(t)
	v := Val{T: t, L: make([]Term, len(sh))}
	for i, l := range sh {
		v.L[i] = zeroLeaf(c, l)
	}
	return v
}

func freshVal(c *Ctx, prefix string, t types.Type) Val {
	sh := shape(t)
	v := Val{T: t, L: make([]Term, len(sh))}
	for i, l := range sh {
		v.L[i] = c.Fresh(prefix+"_"+l.Path, l.Sort)
	}
	// well-formedness of fresh slices: 0 <= len <= cap
	return v
}

func iteVal(c Term, a, b Val) Val {
	if c.IsTrue() {
		return a
	}
	if c.IsFalse() {
		return b
	}
	if len(a.L) != len(b.L) {
		panic(fmt.Sprintf("iteVal: leaf mismatch %v vs %v", a.T, b.T))
	}
	out := Val{T: a.T, L: make([]Term, len(a.L)), MI: a.MI}
	for i := range a.L {
		out.L[i] = Ite(c, a.L[i], b.L[i])
	}
	return out
}

func eqVal(a, b Val) Term {
	if len(a.L) != len(b.L) {
		panic(fmt.Sprintf("eqVal: leaf mismatch %v vs %v", a.T, b.T))
	}
	var cs []Term
	for i := range a.L {
		cs = append(cs, Eq(a.L[i], b.L[i]))
	}
	return And(cs...)
}
