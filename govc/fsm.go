package main

// FSM layer, part 1: evaluation of the state-table constructors
// (getSwap{In,Out}{Sender,Receiver}States) from their go/ssa form. The table
// functions are straight-line code (MakeMap / Alloc / FieldAddr / Store /
// MapUpdate / MakeInterface); they are evaluated concretely, so the table the
// rules talk about is the table the compiler sees.

import (
	"fmt"
	"go/constant"
	"go/types"
	"sort"
	"strings"

	"golang.org/x/tools/go/ssa"
)

type tvCell struct{ v interface{} } // allocation cell
type tvStruct struct {
	t      types.Type
	fields []interface{}
}
type tvMap struct {
	t    types.Type
	keys []interface{}
	vals []interface{}
}
type tvIface struct {
	dyn types.Type
	v   interface{}
}
type tvFieldRef struct {
	cell *tvCell
	idx  int
}

type TState struct {
	Name          string // the string value of the StateType constant
	Const         string // constant identifier (State_…)
	Chain         []types.Type // dynamic types of the action and the wrappers it contains (outermost first)
	ChainNames    []string
	Events        map[string]string // event value → next state value
	FailOnrecover bool
	HasAction     bool
}

type Table struct {
	Fn     *ssa.Function
	Name   string
	States map[string]*TState
	Order  []string
	// constant name lookups
	StateConst map[string]string // value → identifier
	EventConst map[string]string
}

func zeroTV(t types.Type) interface{} {
	switch u := t.Underlying().(type) {
	case *types.Struct:
		s := &tvStruct{t: t, fields: make([]interface{}, u.NumFields())}
		for i := 0; i < u.NumFields(); i++ {
			s.fields[i] = zeroTV(u.Field(i).Type())
		}
		return s
	case *types.Basic:
		if u.Info()&types.IsBoolean != 0 {
			return false
		}
		if u.Info()&types.IsString != 0 {
			return ""
		}
		return int64(0)
	}
	return nil
}

func copyTV(v interface{}) interface{} {
	if s, ok := v.(*tvStruct); ok {
		n := &tvStruct{t: s.t, fields: make([]interface{}, len(s.fields))}
		for i, f := range s.fields {
			n.fields[i] = copyTV(f)
		}
		return n
	}
	return v
}

// evalTable interprets a table constructor.
func evalTable(fn *ssa.Function) (*Table, error) {
	if len(fn.Blocks) != 1 {
		return nil, fmt.Errorf("table function %s is not straight-line (%d blocks)", fn.String(), len(fn.Blocks))
	}
	env := map[ssa.Value]interface{}{}
	val := func(v ssa.Value) (interface{}, error) {
		switch k := v.(type) {
		case *ssa.Const:
			if k.Value == nil {
				return zeroTV(k.Type()), nil
			}
			switch k.Value.Kind() {
			case constant.String:
				return constant.StringVal(k.Value), nil
			case constant.Bool:
				return constant.BoolVal(k.Value), nil
			case constant.Int:
				n, _ := constant.Int64Val(k.Value)
				return n, nil
			}
			return nil, fmt.Errorf("unsupported constant %v", k)
		}
		r, ok := env[v]
		if !ok {
			return nil, fmt.Errorf("value %s undefined in table evaluation", v.Name())
		}
		return r, nil
	}
	var ret interface{}
	for _, ins := range fn.Blocks[0].Instrs {
		switch i := ins.(type) {
		case *ssa.DebugRef:
		case *ssa.MakeMap:
			env[i] = &tvMap{t: i.Type()}
		case *ssa.Alloc:
			env[i] = &tvCell{v: zeroTV(i.Type().Underlying().(*types.Pointer).Elem())}
		case *ssa.FieldAddr:
			b, err := val(i.X)
			if err != nil {
				return nil, err
			}
			switch c := b.(type) {
			case *tvCell:
				env[i] = &tvFieldRef{cell: c, idx: i.Field}
			default:
				return nil, fmt.Errorf("FieldAddr on %T", b)
			}
		case *ssa.Store:
			a, err := val(i.Addr)
			if err != nil {
				return nil, err
			}
			v, err := val(i.Val)
			if err != nil {
				return nil, err
			}
			switch r := a.(type) {
			case *tvFieldRef:
				st, ok := r.cell.v.(*tvStruct)
				if !ok {
					return nil, fmt.Errorf("store into field of non-struct")
				}
				st.fields[r.idx] = copyTV(v)
			case *tvCell:
				r.v = copyTV(v)
			default:
				return nil, fmt.Errorf("store through %T", a)
			}
		case *ssa.UnOp:
			if i.Op.String() != "*" {
				return nil, fmt.Errorf("unsupported unop %s", i.Op)
			}
			a, err := val(i.X)
			if err != nil {
				return nil, err
			}
			switch r := a.(type) {
			case *tvCell:
				env[i] = copyTV(r.v)
			case *tvFieldRef:
				env[i] = copyTV(r.cell.v.(*tvStruct).fields[r.idx])
			default:
				return nil, fmt.Errorf("load through %T", a)
			}
		case *ssa.MapUpdate:
			m, err := val(i.Map)
			if err != nil {
				return nil, err
			}
			k, err := val(i.Key)
			if err != nil {
				return nil, err
			}
			v, err := val(i.Value)
			if err != nil {
				return nil, err
			}
			mm := m.(*tvMap)
			replaced := false
			for j := range mm.keys {
				if mm.keys[j] == k {
					mm.vals[j] = copyTV(v)
					replaced = true
				}
			}
			if !replaced {
				mm.keys = append(mm.keys, k)
				mm.vals = append(mm.vals, copyTV(v))
			}
		case *ssa.MakeInterface:
			v, err := val(i.X)
			if err != nil {
				return nil, err
			}
			env[i] = &tvIface{dyn: i.X.Type(), v: v}
		case *ssa.ChangeType:
			v, err := val(i.X)
			if err != nil {
				return nil, err
			}
			env[i] = v
		case *ssa.Return:
			v, err := val(i.Results[0])
			if err != nil {
				return nil, err
			}
			ret = v
		default:
			return nil, fmt.Errorf("unsupported instruction %T in table function %s", ins, fn.String())
		}
	}
	m, ok := ret.(*tvMap)
	if !ok {
		return nil, fmt.Errorf("table function %s does not return a map", fn.String())
	}
	tb := &Table{Fn: fn, Name: fn.Name(), States: map[string]*TState{}, StateConst: map[string]string{}, EventConst: map[string]string{}}
	// constant identifiers of the package
	scope := fn.Pkg.Pkg.Scope()
	for _, n := range scope.Names() {
		c, ok := scope.Lookup(n).(*types.Const)
		if !ok || c.Val().Kind() != constant.String {
			continue
		}
		tn := types.TypeString(c.Type(), func(*types.Package) string { return "" })
		if tn == "untyped string" {
			// e.g. Event_OnTimeout is declared without a type
			if strings.HasPrefix(n, "Event_") {
				tn = "EventType"
			} else if strings.HasPrefix(n, "State_") {
				tn = "StateType"
			}
		}
		switch tn {
		case "StateType":
			if old, dup := tb.StateConst[constant.StringVal(c.Val())]; !dup || n < old {
				tb.StateConst[constant.StringVal(c.Val())] = n
			}
		case "EventType":
			if old, dup := tb.EventConst[constant.StringVal(c.Val())]; !dup || n < old {
				tb.EventConst[constant.StringVal(c.Val())] = n
			}
		}
	}
	for j, k := range m.keys {
		name := k.(string)
		st := &TState{Name: name, Const: tb.StateConst[name], Events: map[string]string{}}
		sv, ok := m.vals[j].(*tvStruct)
		if !ok {
			return nil, fmt.Errorf("state entry is not a struct")
		}
		stt := sv.t.Underlying().(*types.Struct)
		for f := 0; f < stt.NumFields(); f++ {
			switch stt.Field(f).Name() {
			case "Action":
				if ifc, ok := sv.fields[f].(*tvIface); ok && ifc != nil {
					st.HasAction = true
					cur := ifc
					for cur != nil {
						st.Chain = append(st.Chain, cur.dyn)
						st.ChainNames = append(st.ChainNames, types.TypeString(cur.dyn, func(*types.Package) string { return "" }))
						// follow a field named "next"
						var obj *tvStruct
						switch o := cur.v.(type) {
						case *tvCell:
							obj, _ = o.v.(*tvStruct)
						case *tvStruct:
							obj = o
						}
						cur = nil
						if obj != nil {
							os := obj.t.Underlying().(*types.Struct)
							for q := 0; q < os.NumFields(); q++ {
								if os.Field(q).Name() == "next" {
									if nx, ok := obj.fields[q].(*tvIface); ok && nx != nil {
										cur = nx
									}
								}
							}
						}
					}
				}
			case "Events":
				if em, ok := sv.fields[f].(*tvMap); ok && em != nil {
					for q := range em.keys {
						st.Events[em.keys[q].(string)] = em.vals[q].(string)
					}
				}
			case "FailOnrecover":
				if b, ok := sv.fields[f].(bool); ok {
					st.FailOnrecover = b
				}
			}
		}
		tb.States[name] = st
		tb.Order = append(tb.Order, name)
	}
	return tb, nil
}

func (t *Table) stateByConst(id string) *TState {
	for _, s := range t.States {
		if s.Const == id {
			return s
		}
	}
	if id == "Default" {
		return t.States[""]
	}
	return nil
}

func (t *Table) eventValue(id string) (string, bool) {
	for v, n := range t.EventConst {
		if n == id {
			return v, true
		}
	}
	if id == "NoOp" {
		return "NoOp", true
	}
	return "", false
}

func (t *Table) sortedStates() []*TState {
	var out []*TState
	for _, n := range t.Order {
		out = append(out, t.States[n])
	}
	sort.SliceStable(out, func(i, j int) bool { return out[i].Const < out[j].Const })
	return out
}

func (s *TState) constOrDefault() string {
	if s.Const != "" {
		return s.Const
	}
	if s.Name == "" {
		return "Default"
	}
	return s.Name
}

func (s *TState) hasActionType(name string) bool {
	for _, n := range s.ChainNames {
		if strings.TrimPrefix(n, "*") == name {
			return true
		}
	}
	return false
}
