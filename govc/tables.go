package main

// FSM layer, part 2: table rules. Each rule family expands into one obligation
// per table entry it concerns; the table (evaluated from the real constructor)
// is encoded as SMT definitions and each obligation is discharged by the
// solvers like any other (they are finite and quantifier-free).

import (
	"fmt"
	"sort"
	"strconv"
	"strings"
)

type tableCtx struct {
	tb      *Table
	c       *Ctx
	stateID map[string]int // state value → id
	eventID map[string]int
	sets    map[string]map[string]bool // set name → state values
	next    string
	hasAct  string
}

func (r *Run) loadTable(pkgPath, fnName string) (*Table, error) {
	fn := r.eng.funcs[pkgPath+"::"+fnName]
	if fn == nil {
		return nil, fmt.Errorf("table function %s not found in %s", fnName, pkgPath)
	}
	return evalTable(fn)
}

func newTableCtx(tb *Table) *tableCtx {
	tc := &tableCtx{tb: tb, c: NewCtx(), stateID: map[string]int{}, eventID: map[string]int{}, sets: map[string]map[string]bool{}}
	var states []string
	for s := range tb.States {
		states = append(states, s)
	}
	sort.Strings(states)
	for i, s := range states {
		tc.stateID[s] = i + 1
	}
	evs := map[string]bool{}
	for _, st := range tb.States {
		for e, nx := range st.Events {
			evs[e] = true
			if _, ok := tc.stateID[nx]; !ok {
				tc.stateID[nx] = len(tc.stateID) + 1 // target state not in the table
			}
		}
	}
	for e := range tb.EventConst {
		evs[e] = true
	}
	var el []string
	for e := range evs {
		el = append(el, e)
	}
	sort.Strings(el)
	for i, e := range el {
		tc.eventID[e] = i + 1
	}
	// next(s,e): 0 when the event is not accepted
	var b strings.Builder
	b.WriteString("(define-fun tbl_next ((s Int) (e Int)) Int ")
	n := 0
	for _, s := range states {
		st := tb.States[s]
		var es []string
		for e := range st.Events {
			es = append(es, e)
		}
		sort.Strings(es)
		for _, e := range es {
			fmt.Fprintf(&b, "(ite (and (= s %d) (= e %d)) %d ", tc.stateID[s], tc.eventID[e], tc.stateID[st.Events[e]])
			n++
		}
	}
	b.WriteString("0")
	b.WriteString(strings.Repeat(")", n))
	b.WriteString(")")
	tc.c.lines = append(tc.c.lines, b.String())
	// indb(s): the state has an entry in the table; failrec(s); hasact(s)
	var inT, fr, ha []string
	for _, s := range states {
		inT = append(inT, fmt.Sprintf("(= s %d)", tc.stateID[s]))
		if tb.States[s].FailOnrecover {
			fr = append(fr, fmt.Sprintf("(= s %d)", tc.stateID[s]))
		}
		if tb.States[s].HasAction {
			ha = append(ha, fmt.Sprintf("(= s %d)", tc.stateID[s]))
		}
	}
	orOf := func(xs []string) string {
		if len(xs) == 0 {
			return "false"
		}
		if len(xs) == 1 {
			return xs[0]
		}
		return "(or " + strings.Join(xs, " ") + ")"
	}
	tc.c.lines = append(tc.c.lines, fmt.Sprintf("(define-fun tbl_instate ((s Int)) Bool %s)", orOf(inT)))
	tc.c.lines = append(tc.c.lines, fmt.Sprintf("(define-fun tbl_failonrecover ((s Int)) Bool %s)", orOf(fr)))
	tc.c.lines = append(tc.c.lines, fmt.Sprintf("(define-fun tbl_hasaction ((s Int)) Bool %s)", orOf(ha)))
	tc.c.NoSlice = true
	return tc
}

func (tc *tableCtx) sid(s string) Term { return Term{strconv.Itoa(tc.stateID[s]), "Int"} }
func (tc *tableCtx) eid(e string) Term { return Term{strconv.Itoa(tc.eventID[e]), "Int"} }

func (tc *tableCtx) inSet(set map[string]bool, s Term) Term {
	var xs []Term
	var names []string
	for n := range set {
		names = append(names, n)
	}
	sort.Strings(names)
	for _, n := range names {
		xs = append(xs, Term{fmt.Sprintf("(= %s %d)", s.S, tc.stateID[n]), SBool})
	}
	return Or(xs...)
}

// chainHas(s, typeName) as a definition over the evaluated chain
func (tc *tableCtx) chainHas(typeName string) string {
	name := "tbl_chain_" + sanitize(typeName)
	if tc.c.ufs[name] {
		return name
	}
	tc.c.ufs[name] = true
	var xs []string
	for s, st := range tc.tb.States {
		if st.hasActionType(typeName) {
			xs = append(xs, fmt.Sprintf("(= s %d)", tc.stateID[s]))
		}
	}
	sort.Strings(xs)
	body := "false"
	if len(xs) == 1 {
		body = xs[0]
	} else if len(xs) > 1 {
		body = "(or " + strings.Join(xs, " ") + ")"
	}
	tc.c.lines = append(tc.c.lines, fmt.Sprintf("(define-fun %s ((s Int)) Bool %s)", name, body))
	return name
}

// chainFirst(s, typeName): the outermost action of the state is typeName
func (tc *tableCtx) chainFirst(typeName string) string {
	name := "tbl_first_" + sanitize(typeName)
	if tc.c.ufs[name] {
		return name
	}
	tc.c.ufs[name] = true
	var xs []string
	for s, st := range tc.tb.States {
		if len(st.ChainNames) > 0 && strings.TrimPrefix(st.ChainNames[0], "*") == typeName {
			xs = append(xs, fmt.Sprintf("(= s %d)", tc.stateID[s]))
		}
	}
	sort.Strings(xs)
	body := "false"
	if len(xs) == 1 {
		body = xs[0]
	} else if len(xs) > 1 {
		body = "(or " + strings.Join(xs, " ") + ")"
	}
	tc.c.lines = append(tc.c.lines, fmt.Sprintf("(define-fun %s ((s Int)) Bool %s)", name, body))
	return name
}

func (r *Run) addTables(prop string) {
	cs := r.eng.cs
	// group rules by (pkg, table)
	type key struct{ pkg, tbl string }
	ctxs := map[key]*tableCtx{}
	get := func(tr *TableRule) (*tableCtx, error) {
		k := key{tr.PkgPath, tr.Name}
		if tc, ok := ctxs[k]; ok {
			return tc, nil
		}
		tb, err := r.loadTable(tr.PkgPath, tr.Name)
		if err != nil {
			return nil, err
		}
		tc := newTableCtx(tb)
		ctxs[k] = tc
		// sets
		for _, s := range cs.Tables {
			if s.PkgPath == tr.PkgPath && s.Name == tr.Name && s.Kind == "set" && len(s.Args) >= 1 {
				set := map[string]bool{}
				for _, id := range s.Args[1:] {
					st := tb.stateByConst(id)
					if st == nil {
						// a state of the package that this table does not contain: resolve by constant value
						found := false
						for v, n := range tb.StateConst {
							if n == id {
								set[v] = true
								if _, ok := tc.stateID[v]; !ok {
									tc.stateID[v] = len(tc.stateID) + 1
								}
								found = true
							}
						}
						if !found {
							return nil, fmt.Errorf("%s:%d: unknown state %s in set %s", s.File, s.Line, id, s.Args[0])
						}
						continue
					}
					set[st.Name] = true
				}
				tc.sets[s.Args[0]] = set
			}
		}
		return tc, nil
	}
	for _, tr := range cs.Tables {
		if tr.Kind == "set" || !hasProp(tr.Props, prop) {
			continue
		}
		tc, err := get(tr)
		if err != nil {
			r.Stale = append(r.Stale, err.Error())
			continue
		}
		if err := r.tableRule(tc, tr); err != nil {
			r.Stale = append(r.Stale, fmt.Sprintf("%s:%d: %v", tr.File, tr.Line, err))
		}
	}
	if len(ctxs) > 0 {
		var names []string
		for k := range ctxs {
			names = append(names, k.tbl)
		}
		sort.Strings(names)
		for _, n := range names {
			r.Funcs = append(r.Funcs, FuncInfo{Name: "swap." + n + " (state table, evaluated from SSA)"})
		}
	}
}

func (r *Run) tableObl(tc *tableCtx, tr *TableRule, label, text string, negGoal Term, where string) {
	name := fmt.Sprintf("swap.%s#table[%s]%s", tc.tb.Name, tr.Kind+":"+strings.Join(tr.Args, ","), label)
	o := &Oblig{Name: name, Kind: "table", Text: text, Props: tr.Props, Ctx: tc.c, Func: tc.tb.Fn.String(),
		Parts: []OblPart{{NegGoal: negGoal, NAssume: 0, Where: where}}}
	r.Obls = append(r.Obls, o)
}

func (r *Run) tableRule(tc *tableCtx, tr *TableRule) error {
	tb := tc.tb
	resolveState := func(id string) (string, error) {
		if st := tb.stateByConst(id); st != nil {
			return st.Name, nil
		}
		for v, n := range tb.StateConst {
			if n == id {
				if _, ok := tc.stateID[v]; !ok {
					tc.stateID[v] = len(tc.stateID) + 1
				}
				return v, nil
			}
		}
		return "", fmt.Errorf("unknown state %s", id)
	}
	resolveEvent := func(id string) (string, error) {
		v, ok := tb.eventValue(id)
		if !ok {
			return "", fmt.Errorf("unknown event %s", id)
		}
		if _, ok := tc.eventID[v]; !ok {
			tc.eventID[v] = len(tc.eventID) + 1
		}
		return v, nil
	}
	next := func(s, e Term) Term { return Term{fmt.Sprintf("(tbl_next %s %s)", s.S, e.S), "Int"} }
	switch tr.Kind {
	case "closed":
		// closed <Set> [except S:E ...]: every accepted event of a state in the set leads into the set
		set, ok := tc.sets[tr.Args[0]]
		if !ok {
			return fmt.Errorf("unknown set %s", tr.Args[0])
		}
		for _, st := range tb.sortedStates() {
			if !set[st.Name] {
				continue
			}
			var es []string
			for e := range st.Events {
				es = append(es, e)
			}
			sort.Strings(es)
			for _, e := range es {
				s, ev := tc.sid(st.Name), tc.eid(e)
				goal := tc.inSet(set, next(s, ev))
				r.tableObl(tc, tr, fmt.Sprintf("[%s,%s]", st.constOrDefault(), tb.EventConst[e]),
					fmt.Sprintf("set %s is closed: the edge %s --%s--> stays inside", tr.Args[0], st.constOrDefault(), tb.EventConst[e]),
					Not(goal), st.constOrDefault()+" --"+tb.EventConst[e])
			}
			if len(es) == 0 {
				// terminal states are trivially closed; keep an obligation so the count reflects them
				r.tableObl(tc, tr, fmt.Sprintf("[%s,-]", st.constOrDefault()), "terminal state inside the set", TFalse, st.constOrDefault())
			}
		}
	case "noaction":
		// noaction <Set> <ActionType>: no state of the set runs that action
		set, ok := tc.sets[tr.Args[0]]
		if !ok {
			return fmt.Errorf("unknown set %s", tr.Args[0])
		}
		fn := tc.chainHas(tr.Args[1])
		var names []string
		for n := range set {
			names = append(names, n)
		}
		sort.Strings(names)
		for _, n := range names {
			c := tb.StateConst[n]
			r.tableObl(tc, tr, fmt.Sprintf("[%s]", c), fmt.Sprintf("state %s (in %s) must not run %s", c, tr.Args[0], tr.Args[1]),
				Term{fmt.Sprintf("(%s %d)", fn, tc.stateID[n]), SBool}, c)
		}
	case "onlyin":
		// onlyin <ActionType> <Set>: the action appears only at states of the set
		set, ok := tc.sets[tr.Args[1]]
		if !ok {
			return fmt.Errorf("unknown set %s", tr.Args[1])
		}
		fn := tc.chainHas(tr.Args[0])
		for _, st := range tb.sortedStates() {
			s := tc.sid(st.Name)
			r.tableObl(tc, tr, fmt.Sprintf("[%s]", st.constOrDefault()), fmt.Sprintf("%s runs only in states of %s", tr.Args[0], tr.Args[1]),
				And(Term{fmt.Sprintf("(%s %s)", fn, s.S), SBool}, Not(tc.inSet(set, s))), st.constOrDefault())
		}
	case "entry":
		// entry <Set> S:E ... : the set is entered from outside only through the listed edges
		set, ok := tc.sets[tr.Args[0]]
		if !ok {
			return fmt.Errorf("unknown set %s", tr.Args[0])
		}
		allowed := map[string]bool{}
		for _, a := range tr.Args[1:] {
			p := strings.SplitN(a, ":", 2)
			if len(p) != 2 {
				return fmt.Errorf("entry: expected State:Event, got %s", a)
			}
			sv, err := resolveState(p[0])
			if err != nil {
				return err
			}
			ev, err := resolveEvent(p[1])
			if err != nil {
				return err
			}
			allowed[sv+"\x00"+ev] = true
		}
		for _, st := range tb.sortedStates() {
			if set[st.Name] {
				continue
			}
			var es []string
			for e := range st.Events {
				es = append(es, e)
			}
			sort.Strings(es)
			for _, e := range es {
				if allowed[st.Name+"\x00"+e] {
					continue
				}
				s, ev := tc.sid(st.Name), tc.eid(e)
				r.tableObl(tc, tr, fmt.Sprintf("[%s,%s]", st.constOrDefault(), tb.EventConst[e]),
					fmt.Sprintf("set %s is entered only through the declared edges; %s --%s--> must stay outside", tr.Args[0], st.constOrDefault(), tb.EventConst[e]),
					tc.inSet(set, next(s, ev)), st.constOrDefault()+" --"+tb.EventConst[e])
			}
		}
		// and the declared entry edges exist and do lead into the set
		for a := range allowed {
			p := strings.SplitN(a, "\x00", 2)
			s, ev := tc.sid(p[0]), tc.eid(p[1])
			r.tableObl(tc, tr, fmt.Sprintf("[%s,%s].enters", tb.StateConst[p[0]], tb.EventConst[p[1]]), "declared entry edge leads into the set",
				Not(tc.inSet(set, next(s, ev))), tb.StateConst[p[0]])
		}
	case "edge":
		// edge <S> <E> <S'>
		if len(tr.Args) != 3 {
			return fmt.Errorf("edge <S> <E> <S'>")
		}
		sv, err := resolveState(tr.Args[0])
		if err != nil {
			return err
		}
		ev, err := resolveEvent(tr.Args[1])
		if err != nil {
			return err
		}
		tv, err := resolveState(tr.Args[2])
		if err != nil {
			return err
		}
		r.tableObl(tc, tr, "", fmt.Sprintf("%s accepts %s and moves to %s", tr.Args[0], tr.Args[1], tr.Args[2]),
			Not(Term{fmt.Sprintf("(= %s %d)", next(tc.sid(sv), tc.eid(ev)).S, tc.stateID[tv]), SBool}), tr.Args[0])
	case "noedge":
		// noedge <S> <E>
		sv, err := resolveState(tr.Args[0])
		if err != nil {
			return err
		}
		ev, err := resolveEvent(tr.Args[1])
		if err != nil {
			return err
		}
		r.tableObl(tc, tr, "", fmt.Sprintf("%s does not accept %s", tr.Args[0], tr.Args[1]),
			Not(Term{fmt.Sprintf("(= %s 0)", next(tc.sid(sv), tc.eid(ev)).S), SBool}), tr.Args[0])
	case "action":
		// action <S> <Type> [first]: the chain at S contains Type (as outermost when "first")
		sv, err := resolveState(tr.Args[0])
		if err != nil {
			return err
		}
		fn := tc.chainHas(tr.Args[1])
		if len(tr.Args) > 2 && tr.Args[2] == "first" {
			fn = tc.chainFirst(tr.Args[1])
		}
		r.tableObl(tc, tr, "", fmt.Sprintf("state %s runs %s", tr.Args[0], strings.Join(tr.Args[1:], " ")),
			Not(Term{fmt.Sprintf("(%s %d)", fn, tc.stateID[sv]), SBool}), tr.Args[0])
	case "allfirst":
		// allfirst <Set> <Type>: every state of the set has Type as its outermost action
		set, ok := tc.sets[tr.Args[0]]
		if !ok {
			return fmt.Errorf("unknown set %s", tr.Args[0])
		}
		fn := tc.chainFirst(tr.Args[1])
		var names []string
		for n := range set {
			names = append(names, n)
		}
		sort.Strings(names)
		for _, n := range names {
			if _, inTable := tb.States[n]; !inTable {
				continue
			}
			c := tb.StateConst[n]
			r.tableObl(tc, tr, fmt.Sprintf("[%s]", c), fmt.Sprintf("state %s starts with %s", c, tr.Args[1]),
				Not(Term{fmt.Sprintf("(%s %d)", fn, tc.stateID[n]), SBool}), c)
		}
	case "terminal":
		// terminal <S...>: exactly these states have no outgoing events
		want := map[string]bool{}
		for _, a := range tr.Args {
			sv, err := resolveState(a)
			if err != nil {
				return err
			}
			want[sv] = true
		}
		for _, st := range tb.sortedStates() {
			isTerm := len(st.Events) == 0
			neg := TFalse
			if isTerm != want[st.Name] {
				neg = TTrue
			}
			// expressed through the table function so the solver decides it
			var anyEdge []Term
			for e := range tc.eventID {
				anyEdge = append(anyEdge, Not(Term{fmt.Sprintf("(= (tbl_next %d %d) 0)", tc.stateID[st.Name], tc.eventID[e]), SBool}))
			}
			hasOut := Or(anyEdge...)
			if want[st.Name] {
				neg = hasOut
			} else {
				neg = Not(hasOut)
			}
			r.tableObl(tc, tr, fmt.Sprintf("[%s]", st.constOrDefault()), "the terminal states are exactly the declared ones", neg, st.constOrDefault())
		}
	case "failonrecover":
		// failonrecover <S> true|false
		sv, err := resolveState(tr.Args[0])
		if err != nil {
			return err
		}
		t := Term{fmt.Sprintf("(tbl_failonrecover %d)", tc.stateID[sv]), SBool}
		if tr.Args[1] == "true" {
			t = Not(t)
		}
		r.tableObl(tc, tr, "", fmt.Sprintf("FailOnrecover(%s) == %s", tr.Args[0], tr.Args[1]), t, tr.Args[0])
	case "recoverable":
		// recoverable: every FailOnrecover state accepts Event_ActionFailed, every state has an action
		af, err := resolveEvent("Event_ActionFailed")
		if err != nil {
			return err
		}
		for _, st := range tb.sortedStates() {
			if st.Name == "" {
				continue
			}
			s := tc.sid(st.Name)
			neg := Or(Not(Term{fmt.Sprintf("(tbl_hasaction %s)", s.S), SBool}),
				And(Term{fmt.Sprintf("(tbl_failonrecover %s)", s.S), SBool}, Term{fmt.Sprintf("(= (tbl_next %s %d) 0)", s.S, tc.eventID[af]), SBool}))
			r.tableObl(tc, tr, fmt.Sprintf("[%s]", st.constOrDefault()), "Recover can proceed: the state has an action, and a FailOnrecover state accepts Event_ActionFailed", neg, st.constOrDefault())
		}
	case "targets":
		// targets: every edge leads to a state that is in the table and has an action
		for _, st := range tb.sortedStates() {
			var es []string
			for e := range st.Events {
				es = append(es, e)
			}
			sort.Strings(es)
			for _, e := range es {
				nx := next(tc.sid(st.Name), tc.eid(e))
				neg := Not(And(Term{fmt.Sprintf("(tbl_instate %s)", nx.S), SBool}, Term{fmt.Sprintf("(tbl_hasaction %s)", nx.S), SBool}))
				r.tableObl(tc, tr, fmt.Sprintf("[%s,%s]", st.constOrDefault(), tb.EventConst[e]), "edge target is a configured state with an action (no ErrFsmConfig)", neg, st.constOrDefault())
			}
		}
	case "rank":
		// rank S=n ... [loop:S:E ...]: every edge strictly decreases the rank except declared self/retry loops
		rank := map[string]int{}
		loops := map[string]bool{}
		for _, a := range tr.Args {
			if strings.HasPrefix(a, "loop:") {
				p := strings.SplitN(strings.TrimPrefix(a, "loop:"), ":", 2)
				sv, err := resolveState(p[0])
				if err != nil {
					return err
				}
				ev, err := resolveEvent(p[1])
				if err != nil {
					return err
				}
				loops[sv+"\x00"+ev] = true
				continue
			}
			p := strings.SplitN(a, "=", 2)
			if len(p) != 2 {
				return fmt.Errorf("rank: expected State=n, got %s", a)
			}
			sv, err := resolveState(p[0])
			if err != nil {
				return err
			}
			n, err := strconv.Atoi(p[1])
			if err != nil {
				return err
			}
			rank[sv] = n
		}
		// rank function as SMT
		var b strings.Builder
		b.WriteString("(define-fun tbl_rank ((s Int)) Int ")
		k := 0
		var rs []string
		for s := range rank {
			rs = append(rs, s)
		}
		sort.Strings(rs)
		for _, s := range rs {
			fmt.Fprintf(&b, "(ite (= s %d) %d ", tc.stateID[s], rank[s])
			k++
		}
		b.WriteString("1000000" + strings.Repeat(")", k) + ")")
		if !tc.c.ufs["tbl_rank"] {
			tc.c.ufs["tbl_rank"] = true
			tc.c.lines = append(tc.c.lines, b.String())
		}
		for _, st := range tb.sortedStates() {
			var es []string
			for e := range st.Events {
				es = append(es, e)
			}
			sort.Strings(es)
			for _, e := range es {
				if loops[st.Name+"\x00"+e] {
					continue
				}
				s := tc.sid(st.Name)
				nx := next(s, tc.eid(e))
				neg := Not(Term{fmt.Sprintf("(< (tbl_rank %s) (tbl_rank %s))", nx.S, s.S), SBool})
				r.tableObl(tc, tr, fmt.Sprintf("[%s,%s]", st.constOrDefault(), tb.EventConst[e]), "the variant strictly decreases along the edge", neg, st.constOrDefault()+" --"+tb.EventConst[e])
			}
			// every state has a declared rank
			if _, ok := rank[st.Name]; !ok {
				r.tableObl(tc, tr, fmt.Sprintf("[%s].ranked", st.constOrDefault()), "every state has a declared rank", TTrue, st.constOrDefault())
			}
		}
	case "progress":
		// progress <S> <E...>: a non-terminal waiting state accepts at least the listed wake-up events
		sv, err := resolveState(tr.Args[0])
		if err != nil {
			return err
		}
		for _, a := range tr.Args[1:] {
			ev, err := resolveEvent(a)
			if err != nil {
				return err
			}
			r.tableObl(tc, tr, fmt.Sprintf("[%s]", a), fmt.Sprintf("waiting state %s accepts its wake-up event %s", tr.Args[0], a),
				Term{fmt.Sprintf("(= (tbl_next %d %d) 0)", tc.stateID[sv], tc.eventID[ev]), SBool}, tr.Args[0])
		}
	default:
		return fmt.Errorf("unknown table rule kind %q", tr.Kind)
	}
	return nil
}
