#!/usr/bin/env python3
"""Writes /verif/seeded/<id>/meta.json: which property, what the change needs to
manifest (taken from the author's notes), and what was run to confirm it."""
import json, os, re, sys
sid, pkg, touched, head = sys.argv[1], sys.argv[2], sys.argv[3].split(), sys.argv[4]
d = "/verif/seeded/%s" % sid
notes = open(os.path.join(d, "notes.md")).read() if os.path.exists(os.path.join(d, "notes.md")) else ""
def section(rx):
    m = re.search(r"^#+\s*(%s)[^\n]*\n(.*?)(?=^#+\s|\Z)" % rx, notes, re.S | re.M | re.I)
    return re.sub(r"\s+", " ", m.group(2)).strip()[:1200] if m else ""
title = notes.splitlines()[0].lstrip("# ").strip() if notes else ""
meta = {
    "seed": sid,
    "property": sid.split("-")[0],
    "title": title,
    "clause_broken": section(r"Property clause broken|Clause broken|Property clause|What breaks"),
    "needs_to_manifest": section(r"What is needed[^\n]*|What it needs[^\n]*|Trigger[^\n]*|Needs[^\n]*"),
    "touched_packages": touched,
    "demo_package": pkg,
    "confirmed_at_repo_head": head,
    "confirmed_by": [
        "git worktree of /repo at HEAD (scratch, removed afterwards)",
        "demo (demo_test.go copied to %s/zz_seed_demo_test.go): go test -vet=off -count=1 -run TestSeed ./%s/ passes on the clean tree" % (pkg, pkg),
        "git apply patch.diff; go build ./... succeeds",
        "the same demo fails with the patch applied",
        "go test -vet=off -count=1 ./<touched pkg>/... (the existing tests) pass with the patch applied",
    ],
    "author": "fresh sub-agent given only the property text and its own scratch worktree",
}
json.dump(meta, open(os.path.join(d, "meta.json"), "w"), indent=1)
