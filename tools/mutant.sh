#!/bin/sh
# usage: tools/mutant.sh <patch-file> <prop> [more props...]
# Copies /repo (working tree incl. contract hooks) to a scratch dir, applies the
# patch, runs the checks there, deletes the copy.
# Prints one line per property: KILLED / SURVIVED.
patch=$(readlink -f "$1"); shift
scratch=$(mktemp -d /var/tmp/mut.XXXXXX)
trap 'rm -rf "$scratch"' EXIT
rsync -a --exclude .git /repo/ "$scratch/repo/"
( cd "$scratch/repo" && git init -q . >/dev/null 2>&1; git apply --whitespace=nowarn "$patch" ) || { echo "APPLY-FAILED $patch"; exit 2; }
export GOFLAGS=-mod=mod GOPROXY=off GOSUMDB=off GOTOOLCHAIN=local
if ! ( cd "$scratch/repo" && go build ./... ) >/dev/null 2>&1; then echo "BUILD-FAILED $patch"; exit 2; fi
rc=0
for prop in "$@"; do
  out=$(/verif/bin/govc check -prop "$prop" -repo "$scratch/repo" -verif /verif -out "$scratch/out" 2>&1)
  if echo "$out" | grep -q "^VIOLATION property=$prop"; then
    echo "KILLED   $prop $(basename $patch): $(echo "$out" | grep '^VIOLATION' | sed 's/.*obligation=//' | cut -c1-150 | tr '\n' ';')"
  else
    echo "SURVIVED $prop $(basename $patch): $(echo "$out" | tail -1 | cut -c1-200)"
    rc=1
  fi
done
exit $rc
