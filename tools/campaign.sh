#!/bin/bash
# usage: tools/campaign.sh <prop> <file> <funcs> [max] [parallel]
# Generates single-point mutants of the named functions (tools/mutgen) and runs
# the property's check on each in a scratch copy (tools/mutant.sh).
# Output: /var/tmp/campaign/<prop>/<file>/{*.diff,results.txt}
prop="$1"; file="$2"; funcs="$3"; max="${4:-12}"; par="${5:-4}"
dir=/var/tmp/campaign/$prop/$(echo "$file" | tr '/' '_')
rm -rf "$dir"; mkdir -p "$dir"
/verif/bin/mutgen -repo /repo -file "$file" -funcs "$funcs" -out "$dir" -max "$max" >/dev/null
ls "$dir"/*.diff 2>/dev/null | xargs -P "$par" -I{} sh -c '/verif/tools/mutant.sh {} '"$prop"' 2>&1 | sed "s|patch.diff|$(basename {})|" | head -1 | cut -c1-260 > {}.result; echo "$(head -1 {} | cut -c1-100) => $(cat {}.result)"' > "$dir/results.txt" 2>&1
k=$(grep -c "=> KILLED" "$dir/results.txt"); s=$(grep -c "=> SURVIVED" "$dir/results.txt"); o=$(grep -vc "=> KILLED\|=> SURVIVED" "$dir/results.txt")
echo "$prop $file [$funcs]: killed=$k survived=$s other=$o  ($dir/results.txt)"
