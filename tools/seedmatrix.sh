#!/bin/bash
# usage: tools/seedmatrix.sh [id ...]   (default: every /verif/seeded/<id>)
# Runs each seeded change against the check of its property (scratch copy of
# /repo, removed afterwards) and writes /verif/seeded/MATRIX.txt.
cd /verif
claimed=$(python3 -c "
import json;print(' '.join(c['property_id'] for c in json.load(open('/verif/MANIFEST.json'))['checks']))")
ids="$@"; [ -z "$ids" ] && ids=$(ls seeded | grep -E '^C[0-9]+-[0-9]+r?$')
run_one() {
  id=$1; prop=${id%%-*}
  if ! echo " $claimed " | grep -q " $prop "; then echo "NOT-CLAIMED $prop $id"; return; fi
  if python3 -c "import json,sys;sys.exit(0 if json.load(open('/verif/seeded/$id/meta.json')).get('status')=='obsolete' else 1)" 2>/dev/null; then
    echo "OBSOLETE $prop $id: $(python3 -c "import json;print(json.load(open('/verif/seeded/$id/meta.json')).get('obsolete_reason',''))")"; return
  fi
  tools/mutant.sh seeded/$id/patch.diff $prop 2>&1 | tail -1 | sed "s/patch.diff/$id/"
}
export -f run_one; export claimed
printf '%s\n' $ids | xargs -P${SEED_PAR:-4} -I{} bash -c 'run_one {}' | sort -k2,3 > /tmp/matrix.$$ 
mv /tmp/matrix.$$ seeded/MATRIX.txt
cat seeded/MATRIX.txt | cut -c1-260
