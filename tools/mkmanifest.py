#!/usr/bin/env python3
"""Generates /verif/MANIFEST.json from tools/props.json (one entry per property)."""
import json, subprocess, os, sys

root = os.path.dirname(os.path.dirname(os.path.abspath(__file__)))
props = json.load(open(os.path.join(root, "tools", "props.json")))
all_ids = [json.loads(l)["id"] for l in open(os.path.join(root, "properties.jsonl"))]

def hook_commits():
    try:
        out = subprocess.check_output(["git", "-C", "/repo", "log", "--format=%H %s"], text=True)
    except Exception:
        return []
    return [l.split()[0] for l in out.splitlines() if " verif:" in l or l.split(" ", 1)[1].startswith("verif:")]

checks = []
na = []
for pid in all_ids:
    p = props.get(pid)
    if not p or p.get("status") != "claimed":
        na.append({"property_id": pid, "reason": (p or {}).get("reason", "not claimed in this round")})
        continue
    checks.append({
        "property_id": pid,
        "quick_cmd": "./check %s --tier quick" % pid,
        "thorough_cmd": "./check %s --tier thorough" % pid,
        "evidence_file": "/verif/evidence/%s.json" % pid,
        "replay_cmd_template": "./check --replay {path}",
        "engine": "govc",
        "level_claimed": {
            "category": "proof",
            "text": p["level_text"],
            "design_ref": p.get("design_ref", "DESIGN.md §4 " + pid),
        },
        "level_note": p["level_note"],
        "technique": p.get("technique", "contract-based deductive verification: contracts as //@ comments on the real functions, VCs generated from go/ssa, discharged by z3/cvc5"),
    })

manifest = {
    "version": 1,
    "setup_cmd": "cd /verif/govc && GOFLAGS=-mod=mod GOPROXY=off GOSUMDB=off GOTOOLCHAIN=local go build -o ../bin/govc .",
    "hooks": {
        "guard": "verif",
        "enable": "go build tag 'verif' (-tags verif): the hook files /repo/<pkg>/zz_verif_contracts.go are comment-only contract files read by govc; with the tag off they do not exist for the compiler",
        "baseline_off_cmd": "cd /repo && go test -mod=mod -json -vet=off -count=1 -timeout 25m ./...",
        "source_commits": hook_commits(),
        "add_only": True,
    },
    "engines": [{
        "name": "govc",
        "path": "/verif/govc",
        "serves_properties": [c["property_id"] for c in checks],
        "kind_free_text": "verification-condition generator for Go: go/packages + go/ssa (x/tools v0.29.0) -> SMT-LIB2 (bit-vector machine integers, per-field heap arrays, 136-bit spec integers), contracts in //@ comment files behind build tag verif, obligations raced on z3 4.8.12 / z3 5.1.0 / cvc5 1.0, counterexamples replayed on the real code with go test -overlay",
    }],
    "checks": checks,
    "not_applicable": na,
    "notes": "Every check reloads /repo's working tree (go/packages with -tags verif) and regenerates all obligations; nothing but the govc binary is cached. known_findings.jsonl lists recorded/fixed defects; expect/<id>.obligations pins the obligations that discharge on the unchanged tree.",
}
json.dump(manifest, open(os.path.join(root, "MANIFEST.json"), "w"), indent=1)
print("checks:", len(checks), "not_applicable:", len(na))
