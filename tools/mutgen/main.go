// mutgen: enumerate single-point mutants of named functions of one Go file as
// unified diffs (for the must-fail campaign: each mutant is run against the
// property's check in a scratch copy by tools/mutant.sh).
//
//	usage: mutgen -repo /repo -file onchain/bitcoin.go -funcs GetFee,PrepareSpendingTransaction -out /tmp/muts -max 20
package main

import (
	"bytes"
	"flag"
	"fmt"
	"go/ast"
	"go/parser"
	"go/token"
	"math/rand"
	"os"
	"os/exec"
	"path/filepath"
	"strings"
)

type edit struct {
	pos, end int
	text     string
	what     string
}

func main() {
	repo := flag.String("repo", "/repo", "repository root")
	file := flag.String("file", "", "file, relative to the root")
	funcs := flag.String("funcs", "", "comma separated function names (empty: all)")
	out := flag.String("out", "/tmp/muts", "output directory")
	max := flag.Int("max", 20, "at most this many mutants (random sample, fixed seed)")
	seed := flag.Int64("seed", 1, "sampling seed")
	flag.Parse()
	path := filepath.Join(*repo, *file)
	src, err := os.ReadFile(path)
	if err != nil {
		panic(err)
	}
	fset := token.NewFileSet()
	f, err := parser.ParseFile(fset, path, src, parser.ParseComments)
	if err != nil {
		panic(err)
	}
	want := map[string]bool{}
	for _, n := range strings.Split(*funcs, ",") {
		if n != "" {
			want[n] = true
		}
	}
	off := func(p token.Pos) int { return fset.Position(p).Offset }
	var edits []edit
	for _, d := range f.Decls {
		fd, ok := d.(*ast.FuncDecl)
		if !ok || fd.Body == nil || (len(want) > 0 && !want[fd.Name.Name]) {
			continue
		}
		ast.Inspect(fd.Body, func(n ast.Node) bool {
			switch e := n.(type) {
			case *ast.BinaryExpr:
				repl := map[token.Token][]string{
					token.LSS: {"<="}, token.LEQ: {"<"}, token.GTR: {">="}, token.GEQ: {">"},
					token.EQL: {"!="}, token.NEQ: {"=="}, token.LAND: {"||"}, token.LOR: {"&&"},
					token.ADD: {"-"}, token.SUB: {"+"}, token.MUL: {"/"},
				}
				if isStringy(e) {
					return true
				}
				for _, r := range repl[e.Op] {
					edits = append(edits, edit{off(e.OpPos), off(e.OpPos) + len(e.Op.String()), r,
						fmt.Sprintf("%s: %s -> %s at line %d", fd.Name.Name, e.Op, r, fset.Position(e.OpPos).Line)})
				}
			case *ast.BasicLit:
				if e.Kind == token.INT && len(e.Value) < 8 && !strings.HasPrefix(e.Value, "0x") {
					edits = append(edits, edit{off(e.Pos()), off(e.End()), "(" + e.Value + " + 1)",
						fmt.Sprintf("%s: literal %s -> +1 at line %d", fd.Name.Name, e.Value, fset.Position(e.Pos()).Line)})
				}
			case *ast.IfStmt:
				if e.Init == nil {
					c := string(src[off(e.Cond.Pos()):off(e.Cond.End())])
					edits = append(edits, edit{off(e.Cond.Pos()), off(e.Cond.End()), "!(" + c + ")",
						fmt.Sprintf("%s: negated condition at line %d", fd.Name.Name, fset.Position(e.Cond.Pos()).Line)})
				}
			case *ast.AssignStmt:
				// drop a plain assignment to a field / element (x.f = e, x[i] = e)
				if e.Tok == token.ASSIGN && len(e.Lhs) == 1 {
					switch e.Lhs[0].(type) {
					case *ast.SelectorExpr, *ast.IndexExpr:
						edits = append(edits, edit{off(e.Pos()), off(e.End()), "_ = 0",
							fmt.Sprintf("%s: assignment dropped at line %d", fd.Name.Name, fset.Position(e.Pos()).Line)})
					}
				}
			}
			return true
		})
	}
	rng := rand.New(rand.NewSource(*seed))
	rng.Shuffle(len(edits), func(i, j int) { edits[i], edits[j] = edits[j], edits[i] })
	os.MkdirAll(*out, 0o755)
	n := 0
	for _, e := range edits {
		if n >= *max {
			break
		}
		mut := append(append(append([]byte{}, src[:e.pos]...), e.text...), src[e.end:]...)
		tmp := filepath.Join(*out, "mut.go")
		os.WriteFile(tmp, mut, 0o644)
		// must still be gofmt-parsable
		if _, err := parser.ParseFile(token.NewFileSet(), tmp, mut, 0); err != nil {
			continue
		}
		cmd := exec.Command("diff", "-u", "--label", "a/"+*file, "--label", "b/"+*file, path, tmp)
		var buf bytes.Buffer
		cmd.Stdout = &buf
		cmd.Run()
		name := filepath.Join(*out, fmt.Sprintf("%s_%03d.diff", strings.ReplaceAll(strings.TrimSuffix(*file, ".go"), "/", "_"), n))
		os.WriteFile(name, append([]byte("# "+e.what+"\n"), buf.Bytes()...), 0o644)
		n++
	}
	os.Remove(filepath.Join(*out, "mut.go"))
	fmt.Printf("%d mutants of %s in %s\n", n, *file, *out)
}

func isStringy(e *ast.BinaryExpr) bool {
	if e.Op != token.ADD {
		return false
	}
	for _, x := range []ast.Expr{e.X, e.Y} {
		if l, ok := x.(*ast.BasicLit); ok && l.Kind == token.STRING {
			return true
		}
	}
	return false
}
