#!/bin/bash
# usage: tools/verify_seed.sh <seed-src-dir> <id> [demo-pkg-dir]
# Confirms a seeded change independently in a scratch worktree of /repo:
#   patch applies, project builds, demo FAILS with the patch and PASSES without,
#   existing tests of the touched packages PASS with the patch.
# On success copies patch.diff / demo / notes into /verif/seeded/<id>/ and writes meta.json.
set -u
src=$(readlink -f "$1"); id="$2"
export GOFLAGS=-mod=mod GOPROXY=off GOSUMDB=off GOTOOLCHAIN=local
wt=$(mktemp -d /tmp/seedverify.XXXXXX)
log=/tmp/seedverify-$id.log
: > "$log"
cleanup() { git -C /repo worktree remove --force "$wt" >/dev/null 2>&1; rm -rf "$wt"; }
trap cleanup EXIT
git -C /repo worktree add -q --detach "$wt" HEAD >>"$log" 2>&1 || { echo "$id WORKTREE-FAILED"; exit 2; }
demo=$(ls "$src"/demo_test.go 2>/dev/null | head -1)
pkgdir="${3:-}"
if [ -z "$pkgdir" ]; then
  pkgdir=$(grep -oE '(swap|txwatcher|onchain|policy|premium|peersync|messages|version|electrum|lwk|lnd|clightning|lightning|peerswaprpc)/zz_seed_demo_test\.go' "$src/notes.md" | head -1 | xargs dirname 2>/dev/null)
fi
[ -z "$pkgdir" ] && pkgdir=$(head -1 "$demo" | awk '{print $2}')
cd "$wt"
# clean tree: demo must pass
cp "$demo" "$wt/$pkgdir/zz_seed_demo_test.go"
clean_out=$(go test -vet=off -count=1 -timeout 300s -run 'TestSeed' "./$pkgdir/" 2>&1); clean_rc=$?
echo "== clean demo rc=$clean_rc" >>"$log"; echo "$clean_out" | tail -15 >>"$log"
rm -f "$wt/$pkgdir/zz_seed_demo_test.go"
git apply --whitespace=nowarn "$src/patch.diff" >>"$log" 2>&1 || { echo "$id APPLY-FAILED"; exit 2; }
go build ./... >>"$log" 2>&1 || { echo "$id BUILD-FAILED"; exit 2; }
touched=$(git diff --name-only | xargs -n1 dirname | sort -u)
cp "$demo" "$wt/$pkgdir/zz_seed_demo_test.go"
mut_out=$(go test -vet=off -count=1 -timeout 300s -run 'TestSeed' "./$pkgdir/" 2>&1); mut_rc=$?
echo "== mutated demo rc=$mut_rc" >>"$log"; echo "$mut_out" | tail -25 >>"$log"
rm -f "$wt/$pkgdir/zz_seed_demo_test.go"
tests_rc=0
for d in $touched; do
  out=$(go test -vet=off -count=1 -timeout 25m "./$d/..." 2>&1); rc=$?
  echo "== existing tests ./$d/... rc=$rc" >>"$log"; echo "$out" | tail -5 >>"$log"
  [ $rc -ne 0 ] && tests_rc=1
done
if [ $clean_rc -eq 0 ] && [ $mut_rc -ne 0 ] && [ $tests_rc -eq 0 ]; then
  mkdir -p /verif/seeded/$id
  cp "$src/patch.diff" /verif/seeded/$id/patch.diff
  cp "$demo" /verif/seeded/$id/demo_test.go
  cp "$src/notes.md" /verif/seeded/$id/notes.md 2>/dev/null
  python3 /verif/tools/seedmeta.py "$id" "$pkgdir" "$(echo $touched | tr '\n' ' ')" "$(git -C /repo rev-parse --short HEAD)"
  echo "$id CONFIRMED pkg=$pkgdir touched=$(echo $touched | tr '\n' ' ')"
else
  echo "$id REJECTED clean_rc=$clean_rc mut_rc=$mut_rc tests_rc=$tests_rc (see $log)"
fi
