package swap

// Demonstration of the C11 finding on the real code: a swap-in request whose
// amount overflows when converted to millisatoshi (amount*1000 wraps) passes
// the minimum-amount, spendable-balance and probe checks, and the responder
// answers with an agreement for an amount that does not fit the channel.
// Copy to swap/zz_finding_c11_test.go; run: go test -vet=off -run TestFinding_C11 ./swap/

import (
	"sync"
	"testing"

	"github.com/elementsproject/peerswap/messages"
)

type zzC11Messenger struct {
	sync.Mutex
	types []messages.MessageType
}

func (m *zzC11Messenger) SendMessage(peerId string, msg []byte, msgType int) error {
	m.Lock()
	defer m.Unlock()
	m.types = append(m.types, messages.MessageType(msgType))
	return nil
}
func (m *zzC11Messenger) AddMessageHandler(func(peerId string, msgType string, payload []byte) error) {}

func TestFinding_C11_AmountMsatWrap(t *testing.T) {
	service := getTestSetup(t, "taker")
	msgr := &zzC11Messenger{}
	service.swapServices.messenger = msgr
	service.swapServices.toService = newTimeOutService(service.createTimeoutCallback)
	_, peer, _, makerPubkey, scid := getTestParams()
	id := NewSwapId()
	// 18446744073709552 * 1000 wraps to 384 msat... choose an amount whose wrapped msat value is an ordinary swap size
	var amount uint64 = 18446744073809552 // *1000 mod 2^64 = 100000000384 msat (about 100,000 sat)
	req := &SwapInRequestMessage{ProtocolVersion: PEERSWAP_PROTOCOL_VERSION, SwapId: id, Network: "mainnet", Scid: scid, Amount: amount, Pubkey: makerPubkey, PremiumLimit: 1 << 62}
	_ = service.OnSwapInRequestReceived(id, peer, req)
	msgr.Lock()
	defer msgr.Unlock()
	for _, ty := range msgr.types {
		if ty == messages.MESSAGETYPE_SWAPINAGREEMENT {
			t.Fatalf("agreement sent for a swap of %d sat (1.8e16 sat, far beyond any channel): the msat conversion wrapped to %d msat", amount, amount*1000)
		}
	}
}
