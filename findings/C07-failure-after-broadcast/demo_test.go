package swap

// Demonstration of the C07/C15 finding on the real code: the maker's opening
// transaction is broadcast by the wallet, then the block-height lookup fails;
// the action reports failure, the swap is cancelled and no record of the
// broadcast transaction (txid, preimage invoice) is kept: the funds are abandoned.
// Copy to swap/zz_finding_c07_test.go; run: go test -vet=off -run TestFinding_C07 ./swap/

import (
	"errors"
	"testing"
)

type zzC07Chain struct {
	*dummyChain
	broadcasts int
}

func (c *zzC07Chain) CreateOpeningTransaction(p *OpeningParams) (string, string, string, uint64, uint32, error) {
	c.broadcasts++
	return "txhex", "addr", getRandom32ByteHexString(), 100, 0, nil
}
func (c *zzC07Chain) GetBlockHeight() (uint32, error) {
	return 0, errors.New("backend temporarily unreachable")
}

func TestFinding_C07_FailureAfterBroadcast(t *testing.T) {
	service := getTestSetup(t, "maker")
	chain := &zzC07Chain{dummyChain: service.swapServices.bitcoinWallet.(*dummyChain)}
	service.swapServices.bitcoinWallet = chain
	service.swapServices.bitcoinTxWatcher = chain
	id := NewSwapId()
	_, peer, takerPubkey, makerPubkey, scid := getTestParams()
	data := &SwapData{
		SwapOutRequest:   &SwapOutRequestMessage{ProtocolVersion: PEERSWAP_PROTOCOL_VERSION, SwapId: id, Network: "mainnet", Scid: scid, Amount: 100000, Pubkey: takerPubkey},
		SwapOutAgreement: &SwapOutAgreementMessage{ProtocolVersion: PEERSWAP_PROTOCOL_VERSION, SwapId: id, Pubkey: makerPubkey, Payreq: "fee"},
		PeerNodeId:       peer, InitiatorNodeId: peer, Role: SWAPROLE_RECEIVER, PrivkeyBytes: getRandomPrivkey().Serialize(),
	}
	ev := (&CreateAndBroadcastOpeningTransaction{}).Execute(service.swapServices, data)
	if chain.broadcasts == 1 && ev == Event_ActionFailed && data.OpeningTxBroadcasted == nil {
		t.Fatalf("the opening transaction was broadcast (%d), but the action failed (%v) without recording it: the state machine now cancels the swap and forgets the locked funds", chain.broadcasts, data.LastErr)
	}
}
