package swap

import (
	"testing"

	"github.com/elementsproject/peerswap/messages"
)

// C09: a swap request that reuses the id of a swap the node already knows must
// be refused and leave the existing record untouched. govc reports
//   swap.(*SwapService).lockSwap#ensures[id-not-reused]  (sat)
// the map assignment by id replaces the active swap; the store's
// update-or-create then overwrites the persisted record.
func TestVerifDemoC09SwapIdReuse(t *testing.T) {
	initiator, peer, _, _, channelId := getTestParams()
	alice := getTestSetup(t, initiator)
	bob := getTestSetup(t, peer)
	am := alice.swapServices.messenger.(*ConnectedMessenger)
	bm := bob.swapServices.messenger.(*ConnectedMessenger)
	am.other, bm.other = bm, am
	am.msgReceivedChan = make(chan messages.MessageType, 16)
	bm.msgReceivedChan = make(chan messages.MessageType, 16)
	if err := alice.Start(); err != nil {
		t.Fatal(err)
	}
	if err := bob.Start(); err != nil {
		t.Fatal(err)
	}
	// alice has a swap-out in progress with bob
	first, err := alice.SwapOut(peer, "btc", channelId, initiator, 100000, 100000)
	if err != nil {
		t.Fatal(err)
	}
	<-bm.msgReceivedChan
	<-am.msgReceivedChan
	before, err := alice.swapServices.swapStore.GetData(first.SwapId.String())
	if err != nil {
		t.Fatal(err)
	}
	beforeState, beforePeer, beforeRole := before.Current, before.Data.PeerNodeId, before.Role

	// "mallory" sends alice a swap-out request with the same id on another channel
	_ = alice.OnSwapOutRequestReceived(first.SwapId, "mallory", &SwapOutRequestMessage{
		ProtocolVersion: PEERSWAP_PROTOCOL_VERSION,
		SwapId:          first.SwapId,
		Network:         "regtest",
		Scid:            "2x2x2",
		Amount:          100000,
		Pubkey:          "0211111111111111111111111111111111111111111111111111111111111111ff",
		PremiumLimit:    100000,
	})

	after, err := alice.swapServices.swapStore.GetData(first.SwapId.String())
	if err != nil {
		t.Fatal(err)
	}
	if after.Current != beforeState || after.Data.PeerNodeId != beforePeer || after.Role != beforeRole {
		t.Fatalf("stored swap %s replaced: state %s -> %s, peer %s -> %s, role %v -> %v", first.SwapId,
			beforeState, after.Current, beforePeer, after.Data.PeerNodeId, beforeRole, after.Role)
	}
	active, err := alice.GetActiveSwap(first.SwapId.String())
	if err != nil || active != first {
		t.Fatalf("active swap %s replaced (err=%v)", first.SwapId, err)
	}
}
