package swap

// Demonstration for C18 (go test -overlay, or copy into /repo/swap): a maker that
// waits for the claim payment receives a cancel after the CSV of its opening
// transaction has already matured. The WaitCsv action registers the CSV watch
// with the RPC watcher while SendEvent holds the swap's mutex; the watcher sees
// the output is mature and calls the CSV callback synchronously, which re-enters
// SendEvent of the same swap and waits for that mutex forever.
// Failing obligation:
//   txwatcher.(*BlockchainRpcTxWatcher).AddWaitForCsvTx#ensures[no-callback-before-return]

import (
	"context"
	"os"
	"path"
	"sync/atomic"
	"testing"
	"time"

	"github.com/elementsproject/peerswap/policy"
	"github.com/elementsproject/peerswap/premium"
	"github.com/elementsproject/peerswap/txwatcher"
	"github.com/stretchr/testify/require"
	"go.etcd.io/bbolt"
)

type maturingChain struct{ confs atomic.Uint32 }

func (c *maturingChain) GetBlockHeight() (uint64, error)          { return 3000, nil }
func (c *maturingChain) GetBlockHash(uint32) (string, error)      { return "hash", nil }
func (c *maturingChain) GetTxOut(string, uint32) (*txwatcher.TxOutResp, error) {
	return &txwatcher.TxOutResp{BestBlockHash: "hash", Confirmations: c.confs.Load()}, nil
}
func (c *maturingChain) GetRawtransactionWithBlockHash(string, string) (string, error) {
	return "rawtx", nil
}

// the real RPC watcher, with the wallet-ish methods of the test dummy
type rpcWatcherChain struct {
	*txwatcher.BlockchainRpcTxWatcher
}

func (r *rpcWatcherChain) GetCSVHeight() uint32 { return 1008 }

func TestVerifFindingCancelAfterCsvMaturedDeadlocks(t *testing.T) {
	swapAmount := uint64(100000)
	initiator, peer, takerPubkeyHash, _, chanId := getTestParams()
	msgChan := make(chan PeerMessage, 16)

	store := &dummyStore{dataMap: map[string]*SwapStateMachine{}}
	reqSwapsStore := &requestedSwapsStoreMock{data: map[string][]RequestedSwap{}}
	messenger := &dummyMessenger{msgChan: msgChan}
	lc := &dummyLightningClient{preimage: "fee"}
	pol := &dummyPolicy{
		getMinSwapAmountMsatReturn: policy.DefaultPolicy().MinSwapAmountMsat,
		newSwapsAllowedReturn:      policy.DefaultPolicy().AllowNewSwaps,
	}
	chain := &dummyChain{returnGetCSVHeight: 1008}
	chain.SetBalance(1000000)
	rpc := &maturingChain{}
	watcher := &rpcWatcherChain{txwatcher.NewBlockchainRpcTxWatcher(context.Background(), rpc, 3)}

	dir := t.TempDir()
	db, err := bbolt.Open(path.Join(dir, "premium-db"), os.ModePerm, nil)
	require.NoError(t, err)
	prem, err := premium.NewSetting(db)
	require.NoError(t, err)
	services := NewSwapServices(store, reqSwapsStore, lc, messenger, &MessengerManagerStub{}, pol,
		true, chain, chain, watcher, true, chain, chain, chain, prem)
	services.toService = &timeOutDummy{}

	svc := NewSwapService(services)
	watcher.AddCsvCallback(svc.OnCsvPassed)
	watcher.AddConfirmationCallback(svc.OnTxConfirmed)

	swap := newSwapInSenderFSM(services, initiator, peer)
	require.NoError(t, svc.lockSwap(swap.SwapId.String(), chanId, swap))

	_, err = swap.SendEvent(Event_SwapInSender_OnSwapInRequested, &SwapInRequestMessage{
		Amount: swapAmount, ProtocolVersion: PEERSWAP_PROTOCOL_VERSION, SwapId: swap.SwapId,
		Network: "mainnet", Scid: chanId, Pubkey: initiator,
	})
	require.NoError(t, err)
	_, _ = swap.SendEvent(Event_SwapInSender_OnAgreementReceived, &SwapInAgreementMessage{
		SwapId: swap.SwapId, Pubkey: takerPubkeyHash,
	})
	require.Equal(t, State_SwapInSender_AwaitClaimPayment, swap.Current)

	// the taker never pays; much later (the CSV has matured) its cancel arrives
	rpc.confs.Store(2000)
	done := make(chan struct{})
	go func() {
		_, _ = swap.SendEvent(Event_OnCancelReceived, &CancelMessage{SwapId: swap.SwapId, Message: "late"})
		close(done)
	}()
	select {
	case <-done:
	case <-time.After(5 * time.Second):
		t.Fatalf("handling the cancel blocks forever: the CSV callback re-entered SendEvent under the swap's mutex")
	}
	// the refund must follow (possibly asynchronously)
	if !swap.WaitForStateChange(func(st StateType) bool { return st == State_ClaimedCsv }, 5*time.Second) {
		t.Fatalf("the CSV refund did not follow the cancel")
	}
}
