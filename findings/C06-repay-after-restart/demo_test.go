package swap

// Demonstration of a C06 finding on the real code: the claim payment succeeded
// and its preimage was persisted, the node crashed before the next store write
// and is restarted in State_*_ValidateTxAndPayClaimInvoice. Recovery runs the pay
// action again; the Lightning node refuses to pay the settled invoice a second
// time ("invoice is already paid", LND), the retry loop times out, the action
// fails, and the taker sends coop_close with its swap key although the maker
// already holds the payment.
// Copy to swap/zz_finding_c06b_test.go; run:
//   PAYMENT_RETRY_TIME=2 go test -tags fast_test -vet=off -run TestFinding_C06_Repay ./swap/

import (
	"errors"
	"sync"
	"testing"

	"github.com/elementsproject/peerswap/messages"
)

type zzC06bLightning struct {
	*dummyLightningClient
	attempts int
}

func (l *zzC06bLightning) RebalancePayment(payreq, channel string, max uint32) (string, error) {
	l.attempts++
	return "", errors.New("invoice is already paid")
}

type zzC06bMessenger struct {
	sync.Mutex
	types []messages.MessageType
}

func (m *zzC06bMessenger) SendMessage(peerId string, msg []byte, msgType int) error {
	m.Lock()
	defer m.Unlock()
	m.types = append(m.types, messages.MessageType(msgType))
	return nil
}
func (m *zzC06bMessenger) AddMessageHandler(func(peerId string, msgType string, payload []byte) error) {}

func TestFinding_C06_RepayAfterRestart(t *testing.T) {
	t.Setenv("PAYMENT_RETRY_TIME", "2")
	service := getTestSetup(t, "taker")
	msgr := &zzC06bMessenger{}
	service.swapServices.messenger = msgr
	ln := &zzC06bLightning{dummyLightningClient: service.swapServices.lightning.(*dummyLightningClient)}
	service.swapServices.lightning = ln
	id := NewSwapId()
	_, peer, takerPubkey, makerPubkey, scid := getTestParams()
	data := &SwapData{
		SwapOutRequest:       &SwapOutRequestMessage{ProtocolVersion: PEERSWAP_PROTOCOL_VERSION, SwapId: id, Network: "mainnet", Scid: scid, Amount: 100000, Pubkey: takerPubkey},
		SwapOutAgreement:     &SwapOutAgreementMessage{ProtocolVersion: PEERSWAP_PROTOCOL_VERSION, SwapId: id, Pubkey: makerPubkey, Payreq: "fee"},
		OpeningTxBroadcasted: &OpeningTxBroadcastedMessage{SwapId: id, Payreq: "claim", TxId: getRandom32ByteHexString()},
		OpeningTxHex:         "hex", PeerNodeId: peer, InitiatorNodeId: "me", Role: SWAPROLE_SENDER, PrivkeyBytes: getRandomPrivkey().Serialize(),
		StartingBlockHeight: 1, ClaimPaymentHash: "hash",
		ClaimPreimage: "0101010101010101010101010101010101010101010101010101010101010101", // the payment succeeded before the crash
		FSMState:      State_SwapOutSender_ValidateTxAndPayClaimInvoice,
	}
	sm := swapOutSenderFromStore(&SwapStateMachine{SwapId: id, Data: data, Type: SWAPTYPE_OUT, Role: SWAPROLE_SENDER,
		Current: State_SwapOutSender_ValidateTxAndPayClaimInvoice}, service.swapServices)
	sm.stateChange = sync.NewCond(&sm.stateMutex)
	if err := service.lockSwap(id.String(), scid, sm); err != nil {
		t.Fatal(err)
	}
	if _, err := sm.Recover(); err != nil {
		t.Fatalf("recover: %v", err)
	}
	msgr.Lock()
	defer msgr.Unlock()
	for _, ty := range msgr.types {
		if ty == messages.MESSAGETYPE_COOPCLOSE {
			t.Fatalf("the claim invoice was paid before the restart (preimage stored), yet after %d refused re-payments the taker sent coop_close with its swap key; final state %s", ln.attempts, sm.Current)
		}
	}
}
