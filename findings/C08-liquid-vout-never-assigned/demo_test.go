package onchain

// Demonstration for C08 (go test -overlay, or copy into /repo/onchain):
// LiquidOnChain.CreateOpeningTransaction never assigns its named result `vout`,
// so the maker announces script_out 0 whatever position the wallet gave the swap
// output (elementsd and LWK place change and fee outputs freely).
// Failing obligation:
//   onchain.(*LiquidOnChain).CreateOpeningTransaction#ensures[vout-of-broadcast-tx]

import (
	"testing"

	"github.com/btcsuite/btcd/btcec/v2"
	"github.com/elementsproject/peerswap/swap"
	"github.com/vulpemventures/go-elements/elementsutil"
	"github.com/vulpemventures/go-elements/network"
	"github.com/vulpemventures/go-elements/transaction"
)

type changeFirstWallet struct {
	l *LiquidOnChain
	t *testing.T
}

func (w *changeFirstWallet) GetAddress() (string, error)                  { return "", nil }
func (w *changeFirstWallet) SendToAddress(string, uint64) (string, error) { return "", nil }
func (w *changeFirstWallet) GetBalance() (uint64, error)                  { return 0, nil }
func (w *changeFirstWallet) SendRawTx(string) (string, error)             { return "", nil }
func (w *changeFirstWallet) GetFee(int64) (uint64, error)                 { return 100, nil }
func (w *changeFirstWallet) SetLabel(string, string, string) error        { return nil }
func (w *changeFirstWallet) Ping() (bool, error)                          { return true, nil }

// the wallet funds the swap address and puts its change output FIRST
func (w *changeFirstWallet) CreateAndBroadcastTransaction(p *swap.OpeningParams, asset []byte) (string, string, uint64, error) {
	value, err := elementsutil.ValueToBytes(p.Amount)
	if err != nil {
		return "", "", 0, err
	}
	change, _ := elementsutil.ValueToBytes(12345)
	swapScript, err := w.l.GetOutputScript(p)
	if err != nil {
		return "", "", 0, err
	}
	tx := transaction.NewTx(2)
	tx.AddInput(transaction.NewTxInput(make([]byte, 32), 0))
	tx.AddOutput(transaction.NewTxOutput(asset, change, append([]byte{0x00, 0x14}, make([]byte, 20)...)))
	tx.AddOutput(transaction.NewTxOutput(asset, value, swapScript))
	txHex, err := tx.ToHex()
	return tx.TxHash().String(), txHex, 100, err
}

func TestVerifFindingLiquidVoutNeverAssigned(t *testing.T) {
	l := NewLiquidOnChain(nil, &network.Regtest)
	l.liquidWallet = &changeFirstWallet{l: l, t: t}
	blindingKey, err := btcec.NewPrivateKey()
	if err != nil {
		t.Fatal(err)
	}
	params := &swap.OpeningParams{
		TakerPubkey:      "02752e1beeeeb6472959117a0aa5d172900680c033ddf86b1a8318311e2b10223f",
		MakerPubkey:      "02c30ff537639962f493d326a77f1c6cb591ee3d21ca8d89194bb69cb288f497e8",
		ClaimPaymentHash: "b94f26d422d5ce3a1e65dd4abb398d0d369aefe8f71d112c5591aa45eea1e75c",
		Amount:           5000,
		CSV:              10080,
		BlindingKey:      blindingKey,
	}
	txHex, _, _, _, vout, err := l.CreateOpeningTransaction(params)
	if err != nil {
		t.Fatal(err)
	}
	redeemScript, err := ParamsToTxScript(params, params.CSV)
	if err != nil {
		t.Fatal(err)
	}
	want, err := l.VoutFromTxHex(txHex, redeemScript)
	if err != nil {
		t.Fatal(err)
	}
	if vout != want {
		t.Fatalf("CreateOpeningTransaction announces output %d, the swap output of the broadcast transaction is output %d", vout, want)
	}
}
