package swap

// Demonstrations (against the real state machines) of the three negotiation-wait
// defects found by the table obligations of C16/C17:
//  (a) a swap-in requester restarted while waiting for the agreement waits forever,
//  (b) a swap-out responder whose fee invoice is never paid ignores its own timeout,
//  (c) a swap-out requester restarted while waiting cancels without telling the peer.
// Copy to swap/zz_finding_c17_test.go and run: go test -vet=off -run TestFinding_C17 ./swap/

import (
	"sync"
	"testing"

	"github.com/elementsproject/peerswap/messages"
)

type zzC17Messenger struct {
	sync.Mutex
	types []messages.MessageType
}

func (m *zzC17Messenger) SendMessage(peerId string, msg []byte, msgType int) error {
	m.Lock()
	defer m.Unlock()
	m.types = append(m.types, messages.MessageType(msgType))
	return nil
}
func (m *zzC17Messenger) AddMessageHandler(func(peerId string, msgType string, payload []byte) error) {}
func (m *zzC17Messenger) sentCancel() bool {
	m.Lock()
	defer m.Unlock()
	for _, ty := range m.types {
		if ty == messages.MESSAGETYPE_CANCELED {
			return true
		}
	}
	return false
}

func zzC17Restore(t *testing.T, service *SwapService, typ SwapType, role SwapRole, state StateType, data *SwapData, id *SwapId, scid string) *SwapStateMachine {
	sm := &SwapStateMachine{SwapId: id, Data: data, Type: typ, Role: role, Current: state}
	switch {
	case typ == SWAPTYPE_IN && role == SWAPROLE_SENDER:
		sm = swapInSenderFromStore(sm, service.swapServices)
	case typ == SWAPTYPE_OUT && role == SWAPROLE_SENDER:
		sm = swapOutSenderFromStore(sm, service.swapServices)
	case typ == SWAPTYPE_OUT && role == SWAPROLE_RECEIVER:
		sm = swapOutReceiverFromStore(sm, service.swapServices)
	}
	sm.stateChange = sync.NewCond(&sm.stateMutex)
	if err := service.lockSwap(id.String(), scid, sm); err != nil {
		t.Fatal(err)
	}
	return sm
}

// (a) restart of a swap-in requester in AwaitAgreement
func TestFinding_C17_SwapInRequesterRestart(t *testing.T) {
	service := getTestSetup(t, "maker")
	msgr := &zzC17Messenger{}
	service.swapServices.messenger = msgr
	id := NewSwapId()
	_, peer, _, makerPubkey, scid := getTestParams()
	data := &SwapData{
		SwapInRequest: &SwapInRequestMessage{ProtocolVersion: PEERSWAP_PROTOCOL_VERSION, SwapId: id, Network: "mainnet", Scid: scid, Amount: 100000, Pubkey: makerPubkey},
		PeerNodeId:    peer, InitiatorNodeId: "me", Role: SWAPROLE_SENDER, PrivkeyBytes: getRandomPrivkey().Serialize(),
		FSMState: State_SwapInSender_AwaitAgreement,
	}
	sm := zzC17Restore(t, service, SWAPTYPE_IN, SWAPROLE_SENDER, State_SwapInSender_AwaitAgreement, data, id, scid)
	// the process was restarted: timers are gone, recovery is the only thing that runs
	if _, err := sm.Recover(); err != nil {
		t.Fatalf("recover: %v", err)
	}
	if !sm.IsFinished() {
		t.Errorf("restarted swap-in requester still waits for an agreement (no timer, no failover): state=%s", sm.Current)
	}
	if !msgr.sentCancel() {
		t.Errorf("peer was not told that the swap is cancelled: sent=%v", msgr.types)
	}
}

// (b) fee invoice never paid: the responder's own 10 minute timeout fires
func TestFinding_C17_FeeInvoiceTimeout(t *testing.T) {
	service := getTestSetup(t, "maker")
	msgr := &zzC17Messenger{}
	service.swapServices.messenger = msgr
	id := NewSwapId()
	_, peer, takerPubkey, makerPubkey, scid := getTestParams()
	data := &SwapData{
		SwapOutRequest:   &SwapOutRequestMessage{ProtocolVersion: PEERSWAP_PROTOCOL_VERSION, SwapId: id, Network: "mainnet", Scid: scid, Amount: 100000, Pubkey: takerPubkey},
		SwapOutAgreement: &SwapOutAgreementMessage{ProtocolVersion: PEERSWAP_PROTOCOL_VERSION, SwapId: id, Pubkey: makerPubkey, Payreq: "fee"},
		PeerNodeId:       peer, InitiatorNodeId: peer, Role: SWAPROLE_RECEIVER, PrivkeyBytes: getRandomPrivkey().Serialize(),
		FSMState: State_SwapOutReceiver_AwaitFeeInvoicePayment,
	}
	sm := zzC17Restore(t, service, SWAPTYPE_OUT, SWAPROLE_RECEIVER, State_SwapOutReceiver_AwaitFeeInvoicePayment, data, id, scid)
	service.createTimeoutCallback(id.String())() // what the timeout armed in CreateSwapOutFromRequestAction calls
	if !sm.IsFinished() {
		t.Errorf("responder ignores the negotiation timeout while the fee invoice is unpaid: state=%s", sm.Current)
	}
	if !msgr.sentCancel() {
		t.Errorf("peer was not told that the swap failed: sent=%v", msgr.types)
	}
}

// (c) restart of a swap-out requester in AwaitAgreement
func TestFinding_C17_SwapOutRequesterRestart(t *testing.T) {
	service := getTestSetup(t, "taker")
	msgr := &zzC17Messenger{}
	service.swapServices.messenger = msgr
	id := NewSwapId()
	_, peer, takerPubkey, _, scid := getTestParams()
	data := &SwapData{
		SwapOutRequest: &SwapOutRequestMessage{ProtocolVersion: PEERSWAP_PROTOCOL_VERSION, SwapId: id, Network: "mainnet", Scid: scid, Amount: 100000, Pubkey: takerPubkey},
		PeerNodeId:     peer, InitiatorNodeId: "me", Role: SWAPROLE_SENDER, PrivkeyBytes: getRandomPrivkey().Serialize(),
		FSMState: State_SwapOutSender_AwaitAgreement,
	}
	sm := zzC17Restore(t, service, SWAPTYPE_OUT, SWAPROLE_SENDER, State_SwapOutSender_AwaitAgreement, data, id, scid)
	if _, err := sm.Recover(); err != nil {
		t.Fatalf("recover: %v", err)
	}
	if !sm.IsFinished() {
		t.Errorf("restarted swap-out requester still waits: state=%s", sm.Current)
	}
	if !msgr.sentCancel() {
		t.Errorf("swap cancelled locally but the peer was not told: state=%s sent=%v", sm.Current, msgr.types)
	}
}
