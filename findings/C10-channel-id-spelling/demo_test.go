package swap

import "testing"

// C10: lockSwap compares the raw channel id strings, so the same channel
// written once as 1x2x3 and once as 1:2:3 gets two active swaps.
// Counterexample shape reported by govc for
//   swap.(*SwapService).lockSwap#loop0.preserve[checked]:
// GetScid() != channelId although ReplaceAll(GetScid(),":","x") == ReplaceAll(channelId,":","x").
func TestVerifDemoC10ChannelIdSpelling(t *testing.T) {
	service := getTestSetup(t, "alice")
	mk := func(scid string) (*SwapId, *SwapStateMachine) {
		id := NewSwapId()
		return id, &SwapStateMachine{SwapId: id, Data: &SwapData{SwapInRequest: &SwapInRequestMessage{Scid: scid}}}
	}
	id1, fsm1 := mk("100x2x3")
	if err := service.lockSwap(id1.String(), "100x2x3", fsm1); err != nil {
		t.Fatal(err)
	}
	id2, fsm2 := mk("100:2:3")
	if err := service.lockSwap(id2.String(), "100:2:3", fsm2); err == nil {
		t.Fatalf("two active swaps on channel 100x2x3: %d active", len(service.activeSwaps))
	}
}
