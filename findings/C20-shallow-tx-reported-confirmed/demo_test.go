package txwatcher

// Demonstration for C20 (run with: go test -overlay, or copy into /repo/txwatcher):
// the RPC watcher reports an opening transaction with ONE confirmation as
// confirmed although three are required, when the chain advances by two blocks
// between the height the observation loop was notified of and the height the
// daemon answers during the lookup: `current-(firstSeen-1)` wraps around.
// Failing obligation: txwatcher.(*BlockchainRpcTxWatcher).observationLoop
//   #call[BlockchainRpcTxWatcher.txCallback].pre[confirmed-only-when-deep]

import (
	"context"
	"fmt"
	"sync"
	"testing"
	"time"
)

type advancingChain struct {
	sync.Mutex
	heights []uint64 // successive answers of getblockcount
	confs   uint32
}

func (c *advancingChain) GetBlockHeight() (uint64, error) {
	c.Lock()
	defer c.Unlock()
	h := c.heights[0]
	if len(c.heights) > 1 {
		c.heights = c.heights[1:]
	}
	return h, nil
}
func (c *advancingChain) GetBlockHash(height uint32) (string, error) {
	return fmt.Sprintf("hash-%d", height), nil
}
func (c *advancingChain) GetTxOut(txid string, vout uint32) (*TxOutResp, error) {
	// the output was mined in the tip block (height 102): one confirmation
	return &TxOutResp{BestBlockHash: "hash-102", Confirmations: c.confs}, nil
}
func (c *advancingChain) GetRawtransactionWithBlockHash(txId, blockHash string) (string, error) {
	return "rawtx", nil
}

func TestVerifFindingShallowTxReportedConfirmed(t *testing.T) {
	// the block watcher saw height 100; by the time the loop looks the tx up the tip is 102
	chain := &advancingChain{heights: []uint64{100, 102}, confs: 1}
	w := NewBlockchainRpcTxWatcher(context.Background(), chain, 3)
	got := make(chan error, 4)
	w.AddConfirmationCallback(func(swapId, txHex string, err error) error {
		got <- err
		return nil
	})
	w.AddWaitForConfirmationTx("swap", "txid", 0, 100, 504, nil)
	select {
	case err := <-got:
		if err == nil {
			t.Fatalf("opening transaction with 1 confirmation reported as confirmed (3 required)")
		}
		t.Logf("reported failure: %v", err)
	case <-time.After(500 * time.Millisecond):
		t.Logf("nothing reported (correct: wait for more confirmations)")
	}
}
