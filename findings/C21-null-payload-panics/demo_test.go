package swap

import (
	"testing"

	"github.com/elementsproject/peerswap/messages"
)

// C21: a malformed message must be ignored. The JSON document `null` decodes
// without error into a nil message pointer; every case of OnMessageReceived
// then dereferences it (msg.SwapId) and the handler panics.
// govc: swap.(*SwapService).OnMessageReceived#nopanic[nil] (sat).
func TestVerifDemoC21NullPayload(t *testing.T) {
	service := getTestSetup(t, "alice")
	for _, mt := range []messages.MessageType{
		messages.MESSAGETYPE_SWAPINREQUEST, messages.MESSAGETYPE_SWAPOUTREQUEST,
		messages.MESSAGETYPE_SWAPINAGREEMENT, messages.MESSAGETYPE_SWAPOUTAGREEMENT,
		messages.MESSAGETYPE_OPENINGTXBROADCASTED, messages.MESSAGETYPE_CANCELED, messages.MESSAGETYPE_COOPCLOSE,
	} {
		func() {
			defer func() {
				if r := recover(); r != nil {
					t.Errorf("message type %s with payload null: handler panicked: %v", messages.MessageTypeToHexString(mt), r)
				}
			}()
			_ = service.OnMessageReceived("mallory", messages.MessageTypeToHexString(mt), []byte("null"))
		}()
	}
}
