package swap

import (
	"encoding/hex"
	"errors"
	"strings"
	"sync"
	"testing"

	"github.com/elementsproject/peerswap/lightning"
	"github.com/elementsproject/peerswap/messages"
)

// zzFindingRecordingMessenger records every message the swap sends to its peer.
type zzFindingRecordingMessenger struct {
	sync.Mutex
	types    []messages.MessageType
	payloads []string
}

func (m *zzFindingRecordingMessenger) SendMessage(peerId string, msg []byte, msgType int) error {
	m.Lock()
	defer m.Unlock()
	m.types = append(m.types, messages.MessageType(msgType))
	m.payloads = append(m.payloads, string(msg))
	return nil
}

func (m *zzFindingRecordingMessenger) AddMessageHandler(func(peerId string, msgType string, payload []byte) error) {
}

func (m *zzFindingRecordingMessenger) sentCoopClose(privkeyHex string) bool {
	m.Lock()
	defer m.Unlock()
	for i, ty := range m.types {
		if ty == messages.MESSAGETYPE_COOPCLOSE || strings.Contains(m.payloads[i], privkeyHex) {
			return true
		}
	}
	return false
}

// zzFindingFlakyWallet is a wallet that can not broadcast the claim transaction
// while `down` is set (e.g. bitcoind/elementsd not reachable, fee too low).
type zzFindingFlakyWallet struct {
	*dummyChain
	down       bool
	claimTries int
}

func (w *zzFindingFlakyWallet) CreatePreimageSpendingTransaction(swapParams *OpeningParams, claimParams *ClaimParams) (string, string, string, error) {
	w.claimTries++
	if w.down {
		return "", "", "", errors.New("wallet backend unavailable")
	}
	return w.dummyChain.CreatePreimageSpendingTransaction(swapParams, claimParams)
}

// TestFinding_C06_ClaimSwapTimeout : a swap-in taker has PAID the claim invoice (it holds the
// preimage) but the claim transaction could not be broadcast so far; the FSM
// used up its retry budget and rests in State_SwapOutSender_ClaimSwap. Now the
// 10 minute negotiation timeout, which was armed when the swap request came in
// and is never cancelled, fires. The taker must not answer that with a
// coop_close (which discloses its swap key to the maker that already got the
// lightning payment); it has to keep the swap in the claim state and claim with
// the preimage as soon as the wallet works again.
func TestFinding_C06_ClaimSwapTimeout(t *testing.T) {
	service := getTestSetup(t, "taker")
	messenger := &zzFindingRecordingMessenger{}
	service.swapServices.messenger = messenger
	wallet := &zzFindingFlakyWallet{dummyChain: service.swapServices.bitcoinWallet.(*dummyChain), down: true}
	service.swapServices.bitcoinWallet = wallet

	preimage, err := lightning.GetPreimage()
	if err != nil {
		t.Fatal(err)
	}

	swapId := NewSwapId()
	_, peer, takerPubkey, makerPubkey, scid := getTestParams()
	data := &SwapData{
		SwapOutRequest: &SwapOutRequestMessage{
			ProtocolVersion: PEERSWAP_PROTOCOL_VERSION,
			SwapId:          swapId,
			Network:         "mainnet",
			Scid:            scid,
			Amount:          100000,
			Pubkey:          takerPubkey,
		},
		SwapOutAgreement: &SwapOutAgreementMessage{
			ProtocolVersion: PEERSWAP_PROTOCOL_VERSION,
			SwapId:          swapId,
			Pubkey:          makerPubkey,
			Payreq:          "fee",
		},
		OpeningTxBroadcasted: &OpeningTxBroadcastedMessage{
			SwapId: swapId,
			Payreq: "swapout",
			TxId:   getRandom32ByteHexString(),
		},
		OpeningTxHex:        "openingtxhex",
		PeerNodeId:          peer,
		InitiatorNodeId:     "me",
		Role:                SWAPROLE_SENDER,
		PrivkeyBytes:        getRandomPrivkey().Serialize(),
		StartingBlockHeight: 1,
		// The claim invoice has been paid.
		ClaimPreimage:    preimage.String(),
		ClaimPaymentHash: "foo",
		FSMState:         State_SwapOutSender_ClaimSwap,
	}
	sm := swapOutSenderFromStore(&SwapStateMachine{
		SwapId:   swapId,
		Data:     data,
		Type:     SWAPTYPE_OUT,
		Role:     SWAPROLE_SENDER,
		Previous: State_SwapOutSender_ValidateTxAndPayClaimInvoice,
		Current:  State_SwapOutSender_ClaimSwap,
	}, service.swapServices)
	sm.stateChange = sync.NewCond(&sm.stateMutex)
	if err := service.lockSwap(swapId.String(), scid, sm); err != nil {
		t.Fatal(err)
	}
	privkeyHex := hex.EncodeToString(data.PrivkeyBytes)

	// The negotiation timeout fires (exactly what the timeout service calls).
	service.createTimeoutCallback(swapId.String())()

	if messenger.sentCoopClose(privkeyHex) {
		t.Errorf("taker sent coop_close (swap private key) after its claim payment succeeded; state=%s sent=%v",
			sm.Current, messenger.types)
	}
	if sm.Current != State_SwapOutSender_ClaimSwap {
		t.Errorf("timeout moved a paid swap out of the claim state: state=%s", sm.Current)
	}

	// The wallet is back, the next attempt (here: the recovery on restart) has
	// to claim with the preimage.
	wallet.down = false
	if sm.Current == State_SwapOutSender_ClaimSwap {
		if _, err := sm.Recover(); err != nil {
			t.Fatalf("recover: %v", err)
		}
	}
	if sm.Current != State_ClaimedPreimage || sm.Data.ClaimTxId == "" {
		t.Errorf("paid swap was not claimed with the preimage: state=%s claim_tx=%q (claim attempts: %d)",
			sm.Current, sm.Data.ClaimTxId, wallet.claimTries)
	}
	if messenger.sentCoopClose(privkeyHex) {
		t.Errorf("swap key was disclosed: sent=%v", messenger.types)
	}
}
