package swap

// Demonstration of the C09 finding on the real code: SendEvent applies a message
// to the swap data (and persists it) before it checks that the event is
// acceptable in the current state. A taker that sends opening_tx_broadcasted to
// the maker while the maker still waits for the fee payment therefore plants its
// own "opening transaction" in the maker's record: the event is rejected, but
// the record is changed, and the maker later skips its own broadcast.
// Copy to swap/zz_finding_c09_test.go; run: go test -vet=off -run TestFinding_C09 ./swap/

import (
	"sync"
	"testing"
)

func TestFinding_C09_RejectedMessageChangesSwap(t *testing.T) {
	service := getTestSetup(t, "maker")
	id := NewSwapId()
	_, peer, takerPubkey, makerPubkey, scid := getTestParams()
	data := &SwapData{
		SwapOutRequest:   &SwapOutRequestMessage{ProtocolVersion: PEERSWAP_PROTOCOL_VERSION, SwapId: id, Network: "mainnet", Scid: scid, Amount: 100000, Pubkey: takerPubkey},
		SwapOutAgreement: &SwapOutAgreementMessage{ProtocolVersion: PEERSWAP_PROTOCOL_VERSION, SwapId: id, Pubkey: makerPubkey, Payreq: "fee"},
		PeerNodeId:       peer, InitiatorNodeId: peer, Role: SWAPROLE_RECEIVER, PrivkeyBytes: getRandomPrivkey().Serialize(),
		FSMState: State_SwapOutReceiver_AwaitFeeInvoicePayment,
	}
	sm := swapOutReceiverFromStore(&SwapStateMachine{SwapId: id, Data: data, Type: SWAPTYPE_OUT, Role: SWAPROLE_RECEIVER,
		Current: State_SwapOutReceiver_AwaitFeeInvoicePayment}, service.swapServices)
	sm.stateChange = sync.NewCond(&sm.stateMutex)
	if err := service.lockSwap(id.String(), scid, sm); err != nil {
		t.Fatal(err)
	}
	// the counterparty sends a message that is not acceptable in this state
	forged := &OpeningTxBroadcastedMessage{SwapId: id, Payreq: "attacker-invoice", TxId: getRandom32ByteHexString(), ScriptOut: 7}
	err := service.OnTxOpenedMessage(forged)
	if err == nil {
		t.Fatalf("the event should have been rejected in state %s", sm.Current)
	}
	if sm.Data.OpeningTxBroadcasted != nil {
		t.Errorf("a message rejected in state %s changed the swap: OpeningTxBroadcasted=%+v", sm.Current, sm.Data.OpeningTxBroadcasted)
	}
	stored, serr := service.swapServices.swapStore.GetData(id.String())
	if serr == nil && stored.Data.OpeningTxBroadcasted != nil {
		t.Errorf("... and the change was persisted: %+v", stored.Data.OpeningTxBroadcasted)
	}
}
