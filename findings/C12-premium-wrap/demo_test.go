package swap

// Demonstration of the C12 finding on the real code: a swap-out responder can
// answer with a hugely negative premium that passes CheckPremiumAmount
// (premium <= limit) and makes uint64(int64(amount)+premium)*1000 wrap to an
// arbitrary invoice amount. The initiator then accepts (and pays) a claim
// invoice of 250,000 sat for a 100,000 sat swap with a premium limit of 1,000 sat.
// Copy to swap/zz_finding_c12_test.go; run: go test -vet=off -run TestFinding_C12 ./swap/

import "testing"

type zzC12Next struct{ called bool }

func (n *zzC12Next) Execute(services *SwapServices, swap *SwapData) EventType {
	n.called = true
	return Event_ActionSucceeded
}

func TestFinding_C12_PremiumWrap(t *testing.T) {
	const amount uint64 = 100000
	const limit int64 = 1000
	const premium int64 = -2305843009213543952 // what the peer puts into swap_out_agreement
	id := NewSwapId()
	swap := &SwapData{
		SwapOutRequest:   &SwapOutRequestMessage{ProtocolVersion: PEERSWAP_PROTOCOL_VERSION, SwapId: id, Network: "mainnet", Amount: amount, PremiumLimit: limit},
		SwapOutAgreement: &SwapOutAgreementMessage{ProtocolVersion: PEERSWAP_PROTOCOL_VERSION, SwapId: id, Premium: premium},
	}
	next := &zzC12Next{}
	ev := (&CheckPremiumAmount{next: next}).Execute(nil, swap)
	if ev == Event_ActionSucceeded && next.called {
		claimMsat := swap.GetClaimAmount() * 1000 // the amount AwaitTxConfirmationAction compares the invoice with
		maxMsat := (amount + uint64(limit)) * 1000
		if err := validateClaimInvoice(claimMsat, 0, swap.GetClaimAmount(), timelockPolicy{InvoiceFinalCLTV: 29}); err == nil && claimMsat > maxMsat {
			t.Fatalf("premium %d accepted (limit %d): a claim invoice of %d msat is accepted for a %d sat swap (agreed maximum %d msat)",
				premium, limit, claimMsat, amount, maxMsat)
		}
	}
}
