package swap

// Demonstration of the C05 known finding on the real code: for a Bitcoin swap
// the taker accepts an invoice with final CLTV 504 and still starts the claim
// payment 504 blocks after its start height. With a one-hop route delay of
// final+1 (CLN) the HTLC can stay unresolved until start+1009, while the maker
// can confirm the CSV refund at conf+1008 <= start+1008 whenever the opening
// transaction confirmed at or before the taker's start height.
// Copy to swap/zz_finding_c05_test.go; run: go test -vet=off -run TestFinding_C05 ./swap/

import "testing"

type zzC05Lightning struct {
	*dummyLightningClient
	cltv    int64
	paidAt  []uint32
	heights *zzC05Chain
}

func (l *zzC05Lightning) DecodePayreq(payreq string) (string, uint64, int64, error) {
	return "hash", 100000 * 1000, l.cltv, nil
}
func (l *zzC05Lightning) RebalancePayment(payreq, channel string, max uint32) (string, error) {
	l.paidAt = append(l.paidAt, l.heights.height)
	return "preimage", nil
}

type zzC05Chain struct {
	*dummyChain
	height uint32
}

func (c *zzC05Chain) GetBlockHeight() (uint32, error) { return c.height, nil }
func (c *zzC05Chain) GetCSVHeight() uint32           { return 1008 }
func (c *zzC05Chain) ValidateTx(p *OpeningParams, hex string) (bool, error) {
	return true, nil
}

func TestFinding_C05_HtlcOutlivesCsv(t *testing.T) {
	service := getTestSetup(t, "taker")
	base := service.swapServices.bitcoinWallet.(*dummyChain)
	chain := &zzC05Chain{dummyChain: base, height: 1000}
	ln := &zzC05Lightning{dummyLightningClient: service.swapServices.lightning.(*dummyLightningClient), cltv: 504, heights: chain}
	service.swapServices.lightning = ln
	service.swapServices.bitcoinTxWatcher = chain
	service.swapServices.bitcoinValidator = chain
	service.swapServices.bitcoinWallet = chain
	id := NewSwapId()
	_, peer, takerPubkey, makerPubkey, scid := getTestParams()
	const start = 1000
	data := &SwapData{
		SwapOutRequest:       &SwapOutRequestMessage{ProtocolVersion: PEERSWAP_PROTOCOL_VERSION, SwapId: id, Network: "mainnet", Scid: scid, Amount: 100000, Pubkey: takerPubkey},
		SwapOutAgreement:     &SwapOutAgreementMessage{ProtocolVersion: PEERSWAP_PROTOCOL_VERSION, SwapId: id, Pubkey: makerPubkey, Payreq: "fee"},
		OpeningTxBroadcasted: &OpeningTxBroadcastedMessage{SwapId: id, Payreq: "claim", TxId: getRandom32ByteHexString()},
		OpeningTxHex:         "hex", PeerNodeId: peer, Role: SWAPROLE_SENDER, PrivkeyBytes: getRandomPrivkey().Serialize(),
		StartingBlockHeight: start,
	}
	// 1. the invoice with final CLTV 504 is accepted while waiting for the confirmation
	if ev := (&AwaitTxConfirmationAction{}).Execute(service.swapServices, data); ev != NoOp {
		t.Skipf("invoice not accepted (event %s): finding does not reproduce", ev)
	}
	// 2. 504 blocks later the payment is still started
	chain.height = start + 504
	t.Setenv("PAYMENT_RETRY_TIME", "3")
	ev := (&ValidateTxAndPayClaimInvoiceAction{}).Execute(service.swapServices, data)
	if ev == Event_ActionSucceeded && len(ln.paidAt) == 1 {
		payHeight := ln.paidAt[0]
		htlcExpiry := payHeight + uint32(ln.cltv) + 1 // route delay of buildDirectClaimRoute: final + 1
		csvRefund := uint32(start) + 1008             // opening tx confirmed at the taker's start height (or earlier)
		if htlcExpiry >= csvRefund {
			t.Fatalf("claim payment started at height %d with final CLTV %d: the HTLC can stay open until %d, the maker can refund via CSV at %d", payHeight, ln.cltv, htlcExpiry, csvRefund)
		}
	}
}
