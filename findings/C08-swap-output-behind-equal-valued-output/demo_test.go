package onchain

// Demonstration for C08 / C03 (go test -overlay, or copy into /repo/onchain):
// the maker's wallet may fund the opening transaction with a change output that
// carries exactly the swap amount and precedes the swap output. GetVoutAndVerify
// looked only at the first output with the right value: it answered
// (false, 0, nil), and both wallet adapters ignore the boolean, so the maker
// announced (and later tried to spend) output 0 -- its own change.
// Failing obligations: onchain.(*BitcoinOnChain).GetVoutAndVerify
//   #ensures[present-is-found], #ensures[index-only-with-ok]

import (
	"bytes"
	"encoding/hex"
	"testing"

	"github.com/btcsuite/btcd/chaincfg"
	"github.com/btcsuite/btcd/chaincfg/chainhash"
	"github.com/btcsuite/btcd/wire"
	"github.com/elementsproject/peerswap/swap"
)

func TestVerifFindingSwapOutputBehindEqualValuedOutput(t *testing.T) {
	b := NewBitcoinOnChain(nil, 253, 253, &chaincfg.RegressionNetParams)
	params := &swap.OpeningParams{
		TakerPubkey:      "02752e1beeeeb6472959117a0aa5d172900680c033ddf86b1a8318311e2b10223f",
		MakerPubkey:      "02c30ff537639962f493d326a77f1c6cb591ee3d21ca8d89194bb69cb288f497e8",
		ClaimPaymentHash: "b94f26d422d5ce3a1e65dd4abb398d0d369aefe8f71d112c5591aa45eea1e75c",
		Amount:           5000,
	}
	swapScript, err := b.GetOutputScript(params)
	if err != nil {
		t.Fatal(err)
	}
	changeScript := append([]byte{0x00, 0x14}, bytes.Repeat([]byte{0x11}, 20)...) // some p2wpkh of the wallet
	tx := wire.NewMsgTx(2)
	tx.AddTxIn(wire.NewTxIn(wire.NewOutPoint(&chainhash.Hash{1}, 0), nil, nil))
	tx.AddTxOut(wire.NewTxOut(5000, changeScript)) // change, same value as the swap amount
	tx.AddTxOut(wire.NewTxOut(5000, swapScript))   // the swap output
	var buf bytes.Buffer
	if err := tx.Serialize(&buf); err != nil {
		t.Fatal(err)
	}
	ok, vout, err := b.GetVoutAndVerify(hex.EncodeToString(buf.Bytes()), params)
	if err == nil && (!ok || vout != 1) {
		t.Fatalf("swap output is output 1, GetVoutAndVerify answered ok=%v vout=%d err=nil (callers ignore ok and use vout)", ok, vout)
	}
	if err != nil {
		t.Fatalf("swap output is output 1, GetVoutAndVerify answered err=%v", err)
	}
}
